#!/bin/bash
# usage: mkmut.sh name  (after editing /repo working tree) -> saves diff, restores tree
set -e
cd /repo
git diff > /verif/mutants/$1.diff
git checkout -- .
echo "saved $(wc -l < /verif/mutants/$1.diff) lines to mutants/$1.diff"
