"""Registry of per-property checks. Each check builds a list of driver jobs."""
import atexit
import json
import os
import sys
import time

import vcheck as V
from vcheck import Job

DISK = "./cache/disk"
GRID = "./verifdrv/grid"
CONFIGS = ["zstd/go", "zstd/cgo", "uncompressed/go", "uncompressed/cgo"]


def grid_jobs(ctx, test, configs, shards, budget, extra_env=None, prop=None):
    b = ctx.bin(GRID)
    jobs = []
    for cfg in configs:
        for sh in range(shards):
            env = {"VERIF_PARAM_CONFIG": cfg, "VERIF_SHARD": "%d/%d" % (sh, shards), "VERIF_BUDGET_S": str(budget), "GOMAXPROCS": "4"}
            env.update(extra_env or {})
            jobs.append(Job(b, test, name="%s:%s#%d" % (test, cfg, sh), timeout=budget + 120, env=env))
    return jobs


E1_SCENARIOS_QUICK = [
    "S1-put-get-get", "S2-ac-overwrite", "S3-evict-vs-read", "S4-corrupt-get-get",
    "S5-corrupt-get-put", "S6-corrupt-get-evict-reput", "S7-three-puts-tight", "S10-contains-vs-overwrite",
    "S11-commit-refused-by-reservation", "S12-get-vs-two-overwrites", "S13-get-vs-reupload-other-format",
    "S14-unreserved-overwrite-under-reservation", "S15-slowpath-get-vs-overwrite-vs-eviction",
    "S16-semaphore-vs-metrics-poll",
]
ZSTD_ONLY = {"S4-corrupt-get-get", "S5-corrupt-get-put", "S6-corrupt-get-evict-reput"}


class Ctx:
    def __init__(self, prop, tier, seed, mutant=None):
        self.prop, self.tier, self.seed, self.mutant = prop, tier, seed, mutant
        self.work = os.path.join(V.BUILD, "run-%s-%d" % (prop, os.getpid()))
        os.makedirs(self.work, exist_ok=True)
        self.overlay = V.build_overlay(os.path.join(self.work, "ovl"), shims=True, mutant=mutant)
        self.bins = {}

    def bin(self, pkg, race=False):
        k = (pkg, race)
        if k not in self.bins:
            name = pkg.strip("./").replace("/", "_") or "main"
            out = os.path.join(self.work, name + (".race" if race else "") + ".test")
            self.bins[k] = V.compile_test(pkg, self.overlay, out, race=race)
        return self.bins[k]

    def thorough(self):
        return self.tier == "thorough"


def e1_jobs(ctx, prop, scenarios, bound, shards, budget, oracle=""):
    b = ctx.bin(DISK)
    jobs = []
    for sc in scenarios:
        for mode in ("zstd", "uncompressed"):
            if sc in ZSTD_ONLY and mode != "zstd":
                continue
            for sh in range(shards):
                jobs.append(Job(b, "TestVfE1", name="E1:%s/%s#%d" % (sc, mode, sh), timeout=budget + 60, env={
                    "VERIF_PARAM_PROPERTY": prop, "VERIF_PARAM_SCENARIO": sc + "/" + mode, "VERIF_PARAM_ORACLE": oracle,
                    "GOMAXPROCS": "2", "VERIF_PARAM_BOUND": str(bound), "VERIF_SHARD": "%d/%d" % (sh, shards),
                    "VERIF_BUDGET_S": str(budget)}))
    return jobs


def e2lru_jobs(ctx, prop, depth, budget, hard_extras=(-1, 0, 1, 2), maxblocks=(4, 5)):
    b = ctx.bin(DISK)
    jobs = []
    for mb in maxblocks:
        for he in hard_extras:
            jobs.append(Job(b, "TestVfE2LRU", name="E2-lru:max%d/hard%d" % (mb, he), timeout=budget + 60, env={
                "VERIF_PARAM_PROPERTY": prop, "VERIF_PARAM_ORACLE": prop, "VERIF_PARAM_MAXBLOCKS": str(mb),
                "VERIF_PARAM_HARDEXTRA": str(he), "VERIF_PARAM_DEPTH": str(depth),
                "VERIF_PARAM_CONFIG": "max%d/hard%d" % (mb, he), "VERIF_BUDGET_S": str(budget)}))
    return jobs


def e2cache_jobs(ctx, prop, depth, budget, shards, also="", proxies=("0", "1"), maxblocks=(4,)):
    b = ctx.bin(DISK)
    jobs = []
    for mode in ("zstd", "uncompressed"):
        for px in proxies:
            for mb in maxblocks:
                for sh in range(shards):
                    jobs.append(Job(b, "TestVfE2Cache", name="E2-cache:%s/px%s/max%d#%d" % (mode, px, mb, sh), timeout=budget + 60, env={
                        "VERIF_PARAM_PROPERTY": prop, "VERIF_PARAM_ORACLE": prop, "VERIF_PARAM_ALSO": also,
                        "VERIF_PARAM_MODE": mode, "VERIF_PARAM_PROXY": px, "VERIF_PARAM_MAXBLOCKS": str(mb),
                        "VERIF_PARAM_DEPTH": str(depth), "VERIF_SHARD": "%d/%d" % (sh, shards), "VERIF_BUDGET_S": str(budget)}))
    return jobs


def race_jobs(ctx, reps):
    b = ctx.bin(DISK, race=True)
    return [Job(b, "TestVfRace", name="E6-race:" + mode, timeout=1800, env={"VERIF_PARAM_MODE": mode, "VERIF_PARAM_REPS": str(reps)}) for mode in ("zstd", "uncompressed")]


def check_C07(ctx):
    th = ctx.thorough()
    jobs = e1_jobs(ctx, "C07", E1_SCENARIOS_QUICK + ["S9-findmissing-vs-puts"], 3 if th else 2, 4 if th else 1, 1500 if th else 300)
    jobs += race_jobs(ctx, 200 if th else 25)
    for mode in ("zstd", "uncompressed"):
        jobs.append(Job(ctx.bin(GRID), "TestC07Pools", name="C07:pools/" + mode, timeout=1200, env={"VERIF_PARAM_MODE": mode}))
    return dict(level="model_checking", jobs=jobs,
                rule="server level: after every class of request outcome (18 upload classes: 3 compressed paths x {ok, wrong hash, garbage, truncated, trailing bytes, abort}; 10 download classes) the process-wide zstd encoder/decoder pools hold no object twice (one P, GC off, 64 draws pairwise distinct); stateless DFS over all schedules (preemption-bounded) of each scenario on the real disk cache under the controlled scheduler; an evaluation is one complete execution; distinct = distinct observed operation-result histories per scenario",
                assumptions=[
                    "scheduling points: index mutex acquire, file-namespace operations, harness read points, background remover receive; code between two points of a thread is thread-local (checked separately by the free-running -race pass)",
                    "sequentially consistent interleavings only; preemption bound as reported in parts.*.extra.bound",
                ])


E1_ASSUME = [
    "E1: scheduling points are index-mutex acquire, file-namespace operations, harness read points and the background remover's receive; code between two points of a thread is thread-local",
    "E1: sequentially consistent interleavings only; preemption bound as reported in parts.*.extra.bound",
]
E2_ASSUME = [
    "E2: every transition is executed on the real SizedLRU / a real disk cache on tmpfs (fresh instance, shortest path replayed); states are deduplicated by their exact canonical form (index in recency order, counters, eviction queue, directory listing with random suffixes stripped)",
    "E2: alphabets are the small fixed key/size sets listed in DESIGN.md; depth bound as reported in parts.*.extra.depth",
    "disk.New skeleton fast path (MkdirAll/ReadDir of known-empty leaf directories answered by the os shim) - premise re-checked by a full directory walk at every checked step",
]


def check_C03(ctx):
    th = ctx.thorough()
    jobs = e2lru_jobs(ctx, "C03", 6 if th else 4, 1500 if th else 300)
    jobs += e2cache_jobs(ctx, "C03", 4 if th else 3, 1500 if th else 300, 8 if th else 2, proxies=("0", "1", "2", "3"))
    jobs += e1_jobs(ctx, "C03", ["S3-evict-vs-read", "S5-corrupt-get-put", "S7-three-puts-tight", "S11-commit-refused-by-reservation", "S14-unreserved-overwrite-under-reservation", "S12-get-vs-two-overwrites", "S15-slowpath-get-vs-overwrite-vs-eviction"], 3 if th else 2, 2 if th else 1, 1200 if th else 300, oracle="C03@")
    return dict(level="model_checking", jobs=jobs,
                rule="explicit-state BFS over operation sequences on the real SizedLRU and on a real disk cache (accounting equation, reserved==0, Stats()==index on every transition) plus all preemption-bounded schedules of three concurrent scenarios (equation at every scheduling point); distinct = distinct canonical states / distinct observed histories; environment deviation in the alphabet: uploads whose file cannot be created (os.OpenFile fails, injected through the os shim); E2-cache also from a preloaded backend (blobs that exist only in the backend)",
                assumptions=E2_ASSUME + E1_ASSUME)


def check_C04(ctx):
    th = ctx.thorough()
    jobs = e2cache_jobs(ctx, "C04", 4 if th else 3, 1500 if th else 300, 8 if th else 2, proxies=("0", "1", "2"))
    jobs += e1_jobs(ctx, "C04", ["S2-ac-overwrite", "S3-evict-vs-read", "S6-corrupt-get-evict-reput", "S7-three-puts-tight", "S11-commit-refused-by-reservation", "S12-get-vs-two-overwrites", "S13-get-vs-reupload-other-format"], 3 if th else 2, 2 if th else 1, 1200 if th else 300, oracle="C04@")
    b = ctx.bin(DISK)
    for sh in range(8):
        jobs.append(Job(b, "TestVfC04Restart", name="E2-restart#%d" % sh, timeout=(1500 if th else 300) + 60, env={
            "VERIF_PARAM_PROPERTY": "C04", "VERIF_PARAM_DEPTH": "3" if th else "2", "VERIF_PARAM_CONFIG": "shard%d" % sh,
            "VERIF_SHARD": "%d/8" % sh, "VERIF_BUDGET_S": str(1500 if th else 300), "GOMAXPROCS": "2"}))
    return dict(level="model_checking", jobs=jobs,
                rule="from non-initial states: four earlier lives of the directory written under either storage mode, restarted under either storage mode, then BFS (depth 2 quick / 3 thorough) over the same alphabet with directory==index, the accounting equation and reserved==0 after every transition; explicit-state BFS over operation sequences (incl. uploads failing by hash, short reader, reader error, trailing byte, oversize, and faulty backend fetches) on a real disk cache: directory listing == index after every transition once deletions drained; plus the same at quiescence of every explored schedule of four concurrent scenarios; E2-cache also from a preloaded backend (blobs that exist only in the backend); zero-length RAW value in the alphabet and as an earlier life",
                assumptions=E2_ASSUME + E1_ASSUME)


def check_C05(ctx):
    th = ctx.thorough()
    jobs = e2lru_jobs(ctx, "C05", 6 if th else 4, 1500 if th else 300, hard_extras=(-1,))
    jobs += e2cache_jobs(ctx, "C05", 4 if th else 3, 1500 if th else 300, 8 if th else 2, maxblocks=(4, 3) if th else (4,))
    # "a use is ... any lookup that hit (GET, HEAD, FindMissingBlobs, ActionResult dependency check)": the last one
    # is exercised through the servers: after a validated action-cache hit every referenced local blob is more recent
    # than a control blob touched just before
    for mode in ("zstd", "uncompressed"):
        for be in ("0", "1"):
            jobs.append(Job(ctx.bin(GRID), "TestC06", name="C05:ac-hit-is-a-use/%s/backend%s" % (mode, be), timeout=600,
                            env={"VERIF_PARAM_MODE": mode, "VERIF_PARAM_BACKEND": be, "VERIF_PARAM_ONLY": "recency", "VERIF_PARAM_PROPERTY": "C05"}))
    return dict(level="model_checking", jobs=jobs,
                rule="explicit-state BFS over sequential histories on the real SizedLRU and a real disk cache against a reference recency model: victims are a least-recently-used tail, not more than needed, none when it fits, accepted upload present, oversize rejected without eviction, every kind of hit refreshes recency",
                assumptions=E2_ASSUME)


def check_C01(ctx):
    th = ctx.thorough()
    jobs = grid_jobs(ctx, "TestC01", CONFIGS, 13 if th else 4, 2400 if th else 200)
    for cfg in CONFIGS:
        jobs.append(Job(ctx.bin(GRID), "TestC01BatchLists", name="C01:batchlists/" + cfg, timeout=2400, env={"VERIF_PARAM_CONFIG": cfg, "GOMAXPROCS": "4"}))
    return dict(level="exploration", jobs=jobs,
                rule="full product storage mode x zstd implementation x 14 write paths x sizes on block/chunk edges x content kind x corruption kind (data, declared size, declared hash, framing, compressor, abort), each cell with fresh digests through the real HTTP/gRPC handlers; after a complete zstd frame 1-9 stray zero bytes or a further frame cut at 1-9 bytes; the wrong-declared-size cells repeated from the non-initial state in which the true blob (same hash, true size) is already present; multi-item BatchUpdateBlobs: every sequence up to length 3 (4 thorough) over {good, flipped, size+1, truncated, previous good again, previous good digest with flipped data}, identity and zstd transport: each item answered on its own merits; declared hash = hash of the empty blob with a non-zero size; non-trivial = distinct (path, corruption, size, content) cells that were accepted or rejected with the post-conditions checked",
                assumptions=["in-process servers (httptest recorder / bufconn), the same handlers main() wires up",
                             "blob contents are deterministic pseudo-random or mostly-zero bytes selected by VERIF_SEED; the enumerated grid does not depend on the seed",
                             "FetchBlob origins are loopback httptest servers"])


def check_C02(ctx):
    th = ctx.thorough()
    b = ctx.bin(GRID)
    jobs = []
    budget = 2400 if th else 200
    for w in CONFIGS:
        for r in CONFIGS:
            jobs.append(Job(b, "TestC02", name="C02:%s->%s" % (w, r), timeout=budget + 120,
                            env={"VERIF_PARAM_WRITER": w, "VERIF_PARAM_READER": r, "GOMAXPROCS": "4"}))
    for r in CONFIGS:
        jobs.append(Job(b, "TestC02Fmt2", name="C02fmt2:%s" % r, timeout=budget + 120, env={"VERIF_PARAM_READER": r, "GOMAXPROCS": "4"}))
    jobs.append(Job(b, "TestC02Empty", name="C02empty", timeout=300))
    # concurrency x storage-mode dimension of C02: a blob of the other format read while it is re-uploaded
    jobs += e1_jobs(ctx, "C02", ["S13-get-vs-reupload-other-format"], 3 if th else 2, 2 if th else 1, 1200 if th else 300)
    for cfg in CONFIGS:
        jobs.append(Job(b, "TestC02BatchLists", name="C02:batchlists/" + cfg, timeout=2400, env={"VERIF_PARAM_CONFIG": cfg, "GOMAXPROCS": "4"}))
    # readers must not share a zstd encoder / decoder: pool hygiene after every class of request outcome
    for mode in ("zstd", "uncompressed"):
        jobs.append(Job(b, "TestC07Pools", name="C02:pools/" + mode, timeout=1200, env={"VERIF_PARAM_MODE": mode, "VERIF_PARAM_PROPERTY": "C02"}))
    return dict(level="exploration", jobs=jobs,
                rule="pool hygiene (one P, GC off): after every class of upload / download outcome in both storage modes the process-wide zstd encoder and decoder pools hold no object twice (two later readers would share it); (i) full product writer (mode,impl) x reader (mode,impl, restarted) x blob size on 4 KiB / k MiB edges x content kind x read path x offset class x read_limit class; (ii) files laid out by the independent format writer with 4/8 KiB chunks: every offset 0..n on both ByteStream paths; (iii) the empty blob on every path against an empty cache; multi-digest BatchReadBlobs: every sequence up to length 3 (4 thorough) over {present, second present (1 MiB+3), absent, empty blob, present hash with size+1, previous again}: every response right for the digest it names, every digest answered as often as asked; E1 scenario S13 (blob written under the other storage mode in an earlier life of the directory, Get and zstd Get at offset 1 against a re-upload, all schedules up to the preemption bound); two readers alive at once: every order of {open A, open B, drain A, drain B}, plain/zstd, unaligned offsets; non-trivial = distinct successful reads whose bytes were compared",
                assumptions=["zstd responses are decoded with klauspost/compress and libzstd; both must agree",
                             "in-process servers (httptest recorder / bufconn)",
                             "contents: pseudo-random, zeros, repetitive text; sizes are boundary-chosen"])


C08_HISTORIES = ["H1-upload", "H1z-upload-3-chunks", "H2-ac-overwrite", "H3-wrong-hash-cleanup", "H4-evict", "H5-backend-fetch", "H6-ac-large"]


def check_C06(ctx):
    th = ctx.thorough()
    g = ctx.bin(GRID)
    jobs = []
    shards = 4 if th else 2
    for mode in ("zstd", "uncompressed"):
        for be in ("0", "1"):
            for sh in range(shards):
                jobs.append(Job(g, "TestC06", name="C06:%s/backend%s#%d" % (mode, be, sh), timeout=1800,
                                env={"VERIF_PARAM_MODE": mode, "VERIF_PARAM_BACKEND": be, "VERIF_SHARD": "%d/%d" % (sh, shards), "GOMAXPROCS": "4"}))
    # process level: servers started by main.run(), defaults (validation + dependency checking on) x options that must not matter
    m = ctx.bin(".")
    for other in (("none", "mangling", "asset", "mangling+asset", "uncompressed", "metrics", "max_blob_size") if th else ("none", "mangling", "asset", "mangling+asset")):
        jobs.append(Job(m, "TestVfC06Main", name="C06main:other=%s" % other, timeout=600, env={"VERIF_PARAM_OTHER": other}))
    # E5: Spin model of the fail-fast join + replay of every trail against the implementation
    import e5
    w = os.path.join(ctx.work, "spin")
    model = []
    for n in ((2, 3, 4) if th else (2, 3)):
        model.append(e5.verify(os.path.join(w, "v%d" % n), n, 1))
    unfixed = e5.verify(os.path.join(w, "u2"), 2, 0)
    trails = []
    ntrails = 0
    for n in ((2, 3) if th else (2,)):
        for ff in (0, 1):
            t, total = e5.trails(os.path.join(w, "t%d%d" % (n, ff)), n, ff, cap=4000)
            trails += t
            ntrails += total
    tf = os.path.join(ctx.work, "trails.json")
    json.dump(trails, open(tf, "w"))
    jobs.append(Job(ctx.bin(DISK), "TestVfE5Replay", name="C06:E5-replay", timeout=1800, env={"VERIF_PARAM_TRAILS": tf}))
    extra = {"e5_model": {"file": "models/findmissing.pml", "spin_runs": model, "trails_enumerated": ntrails, "trails_replayed": len(trails),
                          "unfixed_variant_errors": unfixed["errors"],
                          "note": "repaired-code model (FIXED=1) verified exhaustively by Spin: errors must be 0; the FIXED=0 variant must have errors (the model can express the defect)"}}
    bad = [m for m in model if m["errors"] != 0]
    if bad:
        raise V.Broken("Spin finds a violation in the repaired model: %s" % bad)
    if unfixed["errors"] == 0:
        raise V.Broken("Spin finds no violation in the unrepaired model variant: the model cannot express the defect")
    return dict(level="exploration", jobs=jobs, extra_cov=extra,
                rule="process level: servers started by main.run() with the defaults (validation and dependency checking on) x options that must not matter (mangling, asset API, ...): an ActionResult with one referenced blob absent in each of 6 positions (output file, stdout, stderr, Tree blob, file in the Tree root, file in a child directory) x stored via HTTP / gRPC x instance: miss on gRPC, GET and HEAD; all present: hit; every ActionResult shape of a bounded grammar (0-2 output files each digest-only/inline/empty-blob; output directory with Tree variants incl. children and a nil digest; stdout/stderr digest nil/set/empty) x every assignment of {present, absent, stored with another size} (or {present, absent, backend only} with a backend) to its <=5 (7 thorough) referenced blobs, x gRPC GetActionResult, HTTP GET and HEAD; 25 output files with each single one absent (across the batch of 20); recency after a hit; aliasing: every ordered pair of reference slots naming the same stored blob (hit), the same hash with size+1 / size-1 in either order (miss), the same absent digest (miss); with a backend the alphabet has a fourth class X = held by the backend only and larger than max_proxy_blob_size (not obtainable: miss); tree-file-fault: the Tree blob indexed but its file removed behind the cache (must be a miss, never an error); stdout / stderr given BOTH inline and by digest (the digest is a reference like any other); non-trivial = distinct (shape, assignment) cells",
                assumptions=["AC entries are stored directly through the disk layer (UpdateActionResult does not check dependencies either)",
                             "the backend is a scriptable cache.Proxy; the fail-fast join with a backend is additionally model-checked (E5) and its trails replayed"])


def check_C10(ctx):
    th = ctx.thorough()
    g = ctx.bin(GRID)
    jobs = []
    for mode in ("zstd", "uncompressed"):
        jobs.append(Job(g, "TestC10", name="C10:lists/" + mode, timeout=900, env={"VERIF_PARAM_MODE": mode}))
        jobs.append(Job(g, "TestC10Backend", name="C10:backend/" + mode, timeout=900, env={"VERIF_PARAM_MODE": mode}))
        jobs.append(Job(g, "TestC10Limits", name="C10:limits/" + mode, timeout=900, env={"VERIF_PARAM_MODE": mode}))
    # existence checks through the REAL backend clients (httpproxy in front of a plain HTTP store, grpcproxy in
    # front of a second cache): one hash with the stored size and with size+-1
    for via in ("http", "grpc"):
        for mode in ("zstd", "uncompressed"):
            jobs.append(Job(g, "TestC12Chain", name="C10chain:%s/%s" % (via, mode), timeout=600, env={"VERIF_PARAM_VIA": via, "VERIF_PARAM_MODE": mode, "VERIF_PARAM_PROPERTY": "C10"}))
    jobs += e1_jobs(ctx, "C10", ["S9-findmissing-vs-puts"], 3 if th else 2, 4 if th else 2, 1200 if th else 300, oracle="C10")
    jobs += e2cache_jobs(ctx, "C10", 4 if th else 3, 1200 if th else 300, 2, proxies=("0", "1"))
    return dict(level="exploration", jobs=jobs,
                rule="blobs larger than the configured max_blob_size that are nevertheless held (directory written under a higher limit and restarted with limit 1000 / 1; fetched from a backend that then forgets them): present in every list position, absent digests of the same sizes missing; request lists of every length 0..45 with a single missing / single present / size-mismatched / empty digest at every index, all 2^8 (2^10 thorough) present/absent patterns in windows straddling the internal batch boundaries at 20 and 40, duplicates adjacent and 21 apart; with a backend every assignment of {local, backend only, absent, backend over max_proxy_blob_size, backend with another size}^4 (^5) at the list head and across the boundary; all <=2/3-preemption schedules of FindMissing over 25 digests against two concurrent uploads; FindMissing inside BFS operation sequences; lists naming one hash with two of {stored size, size+1, size-1} in every ordered pair at every position with gaps 1/2/19/20/21, also where the right size is backend-only; existence through the real backend clients (httpproxy before a plain HTTP store, grpcproxy before a second cache): sizes n, n+1, n-1; non-trivial = distinct request shapes answered exactly",
                assumptions=["through the real gRPC handler over bufconn; backend = scriptable cache.Proxy answering synchronously",
                             "the fail-fast variant of the join (used by action-cache validation) is covered under C06"] + E1_ASSUME)


def check_C11(ctx):
    g = ctx.bin(GRID)
    shards = 8 if ctx.thorough() else 3
    jobs = [Job(g, "TestC11", name="C11:%s#%d" % (mode, sh), timeout=3600, env={"VERIF_PARAM_MODE": mode, "GOMAXPROCS": "4", "VERIF_SHARD": "%d/%d" % (sh, shards)})
            for mode in ("zstd", "uncompressed") for sh in range(shards)]
    m = ctx.bin(".")
    for other in (("none", "mangling", "asset", "mangling+asset", "uncompressed", "metrics") if ctx.thorough() else ("none", "mangling+asset")):
        for novalid in ("0", "1"):
            jobs.append(Job(m, "TestVfC11Main", name="C11main:other=%s,novalid=%s" % (other, novalid), timeout=600, env={"VERIF_PARAM_OTHER": other, "VERIF_PARAM_NOVALID": novalid}))
    return dict(level="exploration", jobs=jobs,
                rule="process level: servers started by main.run() with HTTP validation on/off x options that must not matter: 7 ill-formed uploads (not a protobuf, absolute / empty path, short hash, negative size, nil file / tree digest) and valid ones through both front ends - refused and nothing left behind where validation applies, stored verbatim and invisible to gRPC where it is disabled; message grammar: a fully populated valid ActionResult and four further valid shapes, plus one invalid field of each kind (empty/absolute path, empty target, nil digest, empty element, negative size, short/upper-case/non-hex/empty hash) at every position where it can occur (output files, output directories, the three symlink lists, stdout/stderr digests) x 5 encodings (gRPC, HTTP protobuf, HTTP JSON, each also zstd-wrapped); validation disabled; all 8 inline-request combinations x stdout size {small, exactly the 3 MiB budget, over it}; alternating overwrites through all encodings with invalid uploads in between; execution metadata: every subset of {worker, queued/completed timestamps, virtual duration, auxiliary metadata}; each optional part of the full message dropped alone; two deviations at once: ordered pairs of variants (quick: a valid shape with an invalid one, gRPC and HTTP protobuf; thorough: all ordered pairs, all five encodings), expected verdict from the harness's own reference validator, which is first checked against every single variant's label; inline cells for results uploaded over gRPC and over HTTP: after every hit each de-inlined field's digest resolves in the CAS to the uploaded bytes; stdout / stderr inline WITH a digest: matching (valid) and each malformed digest kind (invalid); non-trivial = distinct (message, encoding) cells accepted or rejected with the post-conditions checked",
                assumptions=["nil elements of repeated fields cannot be put on the wire by the protobuf runtime; empty elements stand in for them",
                             "an empty output-directory path is valid (REAPI: the working directory itself)"])


def check_C12(ctx):
    th = ctx.thorough()
    b = ctx.bin(DISK)
    budget = 2400 if th else 300
    shards = 8 if th else 4
    jobs = []
    for mode in ("zstd", "uncompressed"):
        for sh in range(shards):
            jobs.append(Job(b, "TestVfC12", name="C12seam:%s#%d" % (mode, sh), timeout=budget + 120,
                            env={"VERIF_PARAM_MODE": mode, "VERIF_SHARD": "%d/%d" % (sh, shards), "VERIF_BUDGET_S": str(budget), "GOMAXPROCS": "2"}))
    jobs += e2cache_jobs(ctx, "C12", 4 if th else 3, budget, 4 if th else 2, proxies=("1",))
    g = ctx.bin(GRID)
    for via in ("http", "grpc", "s3"):
        for mode in ("zstd", "uncompressed"):
            jobs.append(Job(g, "TestC12Chain", name="C12chain:%s/%s" % (via, mode), timeout=600, env={"VERIF_PARAM_VIA": via, "VERIF_PARAM_MODE": mode}))
    for mode in ("zstd", "uncompressed"):
        jobs.append(Job(ctx.bin("./cache/azblobproxy"), "TestVfC12Az", name="C12azblob:%s" % mode, timeout=600, env={"VERIF_PARAM_MODE": mode}))
    return dict(level="fault_enumeration", jobs=jobs,
                rule="seam level: kind {CAS,AC,RAW} x storage mode x size known/unknown x plain/zstd read x backend deviation {none, error, not found, nil reader, size metadata +1/-1/-1/0/over max_proxy_blob_size, one-byte reads, cancelled context, stream error at EVERY byte offset, clean EOF at EVERY byte offset}; 1 deviation quick, pairs (second read deviates too) thorough; then a local-only read with the backend emptied (poisoning) and the quiescence invariants; plus explicit-state BFS over operation sequences with a backend (write-through exactly once, decodable; read-through; faults mixed into sequences); fault class oversize: the object really is larger than max_proxy_blob_size (limit = size-1, size/2): never served, never cached; HTTP chain: the stored object's own header lies about the logical size (0, -1, +-1; short and 4 MiB bodies) - leak oracles only (the backend is trusted for content); faithful backend, reads at offsets 1, n/2, n-1 (plain and zstd), first through the backend, then the local hit; real backend clients (httpproxy, grpcproxy, s3proxy = minio client against a local S3 fake, azblobproxy = azblob SDK against a local Blob-endpoint fake): write-through + fresh peer, 404 / error status, cut at EVERY byte offset, header lies, leak oracle; FindMissingBlobs with sizes n, n+-1; a backend configured not to upload (num_uploaders 0): 20 uploads leave no descriptor open; non-trivial = distinct fault cells completed with the oracle checked",
                assumptions=["the backend is trusted for content it completely delivers (no bit flips)",
                             "scriptable in-memory cache.Proxy at the seam the real proxies implement; HTTP/gRPC/S3/Azure proxy implementations are exercised by the chained-cache part (S3 and Azure against local fakes that implement only the calls those backends make); the GCS backend is not executed",
                             "objects are 60-150 logical bytes so that every byte offset of the stored form is enumerated"] + E2_ASSUME[:2])


def check_C14(ctx):
    g = ctx.bin(GRID)
    jobs = []
    for mode in ("zstd", "uncompressed"):
        for part in ("digests", "names", "http", "writes", "space", "aborts", "backend-aborts", "origin", "files"):
            jobs.append(Job(g, "TestC14", name="C14:%s/%s" % (part, mode), timeout=2400, env={"VERIF_PARAM_MODE": mode, "VERIF_PARAM_PART": part, "GOMAXPROCS": "4"}))
    return dict(level="exploration", jobs=jobs,
                rule="small-scope structural enumeration through the real handlers: 12 digest shapes (nil, empty, present, absent, empty blob, negative / huge size, four malformed hashes, zero size with a hash) at every digest position of every gRPC request type (pairs for SpliceBlob), FetchBlob uri x qualifier shapes, stored blobs (9 Directory, 5 Tree, 4 ActionResult shapes incl. nil digests and garbage) read back through GetTree / GetActionResult / HTTP; all token sequences up to length 4 (5 thorough) over 14 resource-name tokens for ByteStream.Read (x offsets, limits), Write and QueryWriteStatus; 21 URL paths x 9 HTTP methods; PUT header products (size header x encoding x content type x content length); all ByteStream.Write message sequences up to length 3 over 9 message kinds with a client abort after every prefix; uploads refused for lack of space through every write path (larger than max_size / space held by other requests' reservations / SpliceBlob whose chunks fit but whose result does not) x hard limit on/off with the leak oracle after every cell; downloads the client abandons (ByteStream.Read identity/zstd at offsets 0 and 1, HTTP GET plain/zstd over a real connection; one-chunk and multi-chunk blobs; before / after the first piece) with the garbage collector off, so a file closed only by its finalizer counts as left behind; FetchBlob against an origin answering 200/403/404/500/503 x {no body, 10 B, 100 KiB} x {Content-Length, chunked} x checksum qualifier {none, matching, other}: after each cell the origin holds no connection the cache has not given back; ill-formed cas.v2 files in the directory (19 header damages: chunk size, logical size, offset count, offsets, compression type, truncations, garbage chunk data) read through 6 read paths at offsets 0, 1, 1 MiB, 1 MiB+1, n-1 plus FindMissingBlobs; Write streams ending with finish_write that the client does not half-close; requests that need a slow backend and that the client gives up on (BatchReadBlobs / ByteStream.Read / GetActionResult / FindMissingBlobs / GetTree x 4 blobs of 1000 B / 300 KiB x held by the backend or not x three patience values): nothing stays reserved, no goroutine left; non-trivial = distinct cells that completed",
                assumptions=["bounded-exhaustive over message shapes and token sequences (small-scope hypothesis), not byte-level fuzzing",
                             "gRPC handler panics are caught by the harness's interceptor and reported (the real server has no recovery: a panic there terminates the process)",
                             "leaks: goroutines inside repository request code, reserved bytes, directory==index and open descriptors are compared with the baseline every 64 cells and at the end; waits are by state with a 20 s cap"])


def check_C15(ctx):
    th = ctx.thorough()
    g = ctx.bin(GRID)
    jobs = [Job(g, "TestC15", name="C15:instances/" + mode, timeout=1200, env={"VERIF_PARAM_MODE": mode, "GOMAXPROCS": "4"}) for mode in ("zstd", "uncompressed")]
    jobs += e2cache_jobs(ctx, "C15", 4 if th else 3, 1500 if th else 300, 8 if th else 2, proxies=("0",))
    m = ctx.bin(".")
    for mangle in ("1", "0"):
        for asset in ("0", "1"):
            for novalid in (("0", "1") if th else ("0",)):
                jobs.append(Job(m, "TestVfC15Main", name="C15main:mangle=%s,asset=%s,novalid=%s" % (mangle, asset, novalid), timeout=600,
                                env={"VERIF_PARAM_MANGLE": mangle, "VERIF_PARAM_ASSET": asset, "VERIF_PARAM_NOVALID": novalid}))
    return dict(level="model_checking", jobs=jobs,
                rule="process level: servers started by main.run() (flags -> config -> both front ends on unix sockets) for mangling on/off x remote asset API on/off (x HTTP validation off, thorough): every (write front end, write instance) x (read front end, read instance) pair over 10 instance names; explicit-state BFS over operation sequences on a real disk cache in which the CAS, AC and RAW key spaces collide on ONE hash (uploads good and failing, overwrites, evictions, lookups, zstd reads), compared with three independent reference maps on every transition; plus the full product of 12 instance names (empty, nested, containing ac/cas/blobs/uploads segments, unicode, spaces, case, trailing slash) x store via gRPC or HTTP x read via gRPC or HTTP under every instance name x mangling on/off x HTTP validation on/off; server level: every HTTP action-cache lookup repeated by a client that accepts zstd (must answer identically, never compressed); one hash stored as CAS blob, validated and raw action result in six orders; 20 instance names incl. eight longer than 64 bytes that agree in their first 62/63/64/100 bytes; the empty blob's hash as an action key (never stored => absent on HEAD/GET/gRPC; after an upload HEAD agrees with GET; CAS empty blob undisturbed)",
                assumptions=E2_ASSUME + ["instance names without leading/trailing slash (REAPI-conformant); an HTTP path with an empty segment is redirected by net/http before it reaches the handler"])


def check_C16(ctx):
    g = ctx.bin(GRID)
    shards = 4
    jobs = [Job(g, "TestC16", name="C16:%s#%d" % (mode, sh), timeout=1200, env={"VERIF_PARAM_MODE": mode, "VERIF_SHARD": "%d/%d" % (sh, shards), "GOMAXPROCS": "4"})
            for mode in ("zstd", "uncompressed") for sh in range(shards)]
    return dict(level="exploration", jobs=jobs,
                rule="ByteStream.Write streams over the real handler: {identity, zstd} x blob present/absent x finish_write {last, none, on the first of several messages} x later resource names {omitted, repeated, changed} x first write_offset {0,1} x declared size {n, n-1, n+1} plus six resource-name shapes; for the base variants ALL compositions of a 6-byte payload into 1..4 (5 thorough) messages incl. empty ones, for deviating variants a spread; each followed by FindMissingBlobs and QueryWriteStatus; blob present only in a proxy backend x backend reports exact / unknown (-1) size x identity/zstd x all compositions into <=3 messages x complete / first-message-only stream; instance-name shapes with segments ending in 'uploads' / containing 'blobs', unicode; streams the client does NOT half-close: finish_write on the last message (all compositions into <=3 messages), and the first message only when the blob exists; non-trivial = distinct (variant, composition) cells",
                assumptions=["through the real gRPC server over bufconn with the real client stream API",
                             "the interleaving of the handler's three goroutines is whatever the runtime picks; the oracle only contains outcomes that do not depend on it"])


def check_C18(ctx):
    g = ctx.bin(GRID)
    jobs = []
    for mode in ("zstd", "uncompressed"):
        shards = 6 if ctx.thorough() else 1
        for sh in range(shards):
            jobs.append(Job(g, "TestC18", name="C18:write/%s#%d" % (mode, sh), timeout=3600, env={"VERIF_PARAM_MODE": mode, "GOMAXPROCS": "4", "VERIF_SHARD": "%d/%d" % (sh, shards)}))
        jobs.append(Job(g, "TestC18Proxy", name="C18:proxy/" + mode, timeout=3600, env={"VERIF_PARAM_MODE": mode, "GOMAXPROCS": "4"}))
    return dict(level="exploration", jobs=jobs,
                rule="backend part: objects of P-1, P, P+1, 2P bytes, incompressible and compressible (stored object smaller than the limit although the blob is larger); max_blob_size L in {1, 4 KiB, 1 MiB} (thorough: 11 limits incl. 2, 100, 4 KiB+-1, 64 KiB, 1 MiB+-1, 2 MiB+1) x item size {L-1, L, L+1, 4L} (thorough: 1, L/2, L-1, L, L+1, L+2, 2L, 4L+1) x 14 write paths x {incompressible, highly compressible} content (so that the transport size differs from the logical size) x storage mode; max_proxy_blob_size P in {100, 4096} x backend object {P-1, P, P+1} x {Get size known/unknown, GetZstd, Contains known/unknown, FindMissingBlobs, AC dependency check}; GetCapabilities; the action-cache entry itself as the item (serialised ActionResult of L-1, L, L+1, 4L bytes via gRPC and HTTP); a refused ac_* upload must not leave its ActionResult behind; oversize items that are ALREADY present (directory filled without a limit, restarted with max_blob_size) through every CAS write path; non-trivial = distinct cells on both sides of each limit",
                assumptions=["in-process servers; the disk cache and both front ends are configured with the same limit, as main() does"])


def check_C20(ctx):
    g = ctx.bin(GRID)
    jobs = []
    for cfg in CONFIGS:
        jobs.append(Job(g, "TestC20Read", name="C20:read/" + cfg, timeout=1800, env={"VERIF_PARAM_READER": cfg, "GOMAXPROCS": "4"}))
        jobs.append(Job(g, "TestC20Write", name="C20:write/" + cfg, timeout=1800, env={"VERIF_PARAM_WRITER": cfg, "GOMAXPROCS": "4"}))
    jobs.append(Job(g, "TestC20Golden", name="C20:golden", timeout=900))
    jobs.append(Job(ctx.bin("./cache/s3proxy"), "TestVfC20Names", name="C20:names/s3", timeout=300))
    jobs.append(Job(ctx.bin("./cache/azblobproxy"), "TestVfC20Names", name="C20:names/azblob", timeout=300))
    jobs.append(Job(ctx.bin("./cache/azblobproxy"), "TestVfC20Wire", name="C20:wire-names/azblob", timeout=300))
    return dict(level="exploration", jobs=jobs,
                rule="(a) files laid out by the harness's independent implementation of the published v2 format: chunk size {4 KiB, 64 KiB, 1 MiB, 3 MiB} x blob sizes around each x encoder {klauspost fastest/default/best, libzstd 1/19} x content kind x suffix shape, identity-compression v2 files, raw .v1 files, AC files with arbitrary suffixes; served by this build in every (storage mode, zstd implementation) through all read paths at boundary offsets; (b) every file this build writes in every configuration (8 sizes x 3 content kinds x 6 upload paths, plus files written by a backend fetch with size known / unknown / HTTP GET) parsed by the independent reader with both zstd decoders and as a plain zstd stream, file names checked against the published naming; (c) a golden directory and name tables produced by the pinned release: read back in all four configurations, file / HTTP URL / gRPC resource / S3 / Azure object names compared tuple by tuple and checked for injectivity; chunk encoders: klauspost one-shot fastest/default/best, libzstd levels 1 and 19, and three STREAMING encoders (frames that declare a window: default, 32 MiB window + checksum, best + 1 KiB window); azblobproxy wire names: requests observed at a local fake of the Azure endpoint (HEAD, GET, PUT use one name per tuple, injective, equal to the golden table of the pinned tree)",
                assumptions=["golden files were produced once by the pinned commit (plus the hook commit) with VERIF_REPO pointing at a worktree of it; they are committed under /verif/golden",
                             "the independent reader/writer (go/vlib/fmt2.go) is written from the format description in casblob.go's header comment and README"])


def check_C19(ctx):
    b = ctx.bin("./config")
    jobs = [Job(b, "TestVfC19", name="C19:config", timeout=2400)]
    return dict(level="exploration", jobs=jobs,
                rule="deviation-bounded configuration enumeration: the required settings plus every subset of <=2 (thorough <=3) of 28 further settings x their values (with the companions a setting needs), each rendered as command-line flags, as environment variables and as YAML and parsed by the real flag/YAML code; deprecated host/port forms against the address forms; 21 invalid classes, each alone and combined with every single other valid deviation; mixed listener forms (one listener in the current, the other in the deprecated form); non-trivial = distinct configurations on which the three front ends were compared",
                assumptions=["basic Config fields are compared (loggers, TLS objects and proxy clients are not constructed)",
                             "listener addresses and max_size_hard_limit are always given explicitly because their defaults intentionally differ between flags and YAML"])


def check_C17(ctx):
    th = ctx.thorough()
    jobs = e2lru_jobs(ctx, "C17", 6 if th else 4, 1500 if th else 300, hard_extras=(-1, 0, 1, 2))
    scen = ["S17-hardlimit-unset", "S17-hardlimit-max", "S17-hardlimit-max+1blk", "S17-hardlimit-max+2blk"] if th else ["S17-hardlimit-unset", "S17-hardlimit-max", "S17-hardlimit-max+1blk"]
    jobs += e1_jobs(ctx, "C17", scen, 3 if th else 2, 8 if th else 6, 1500 if th else 400)
    jobs.append(Job(ctx.bin(GRID), "TestC17", name="C17:status-mapping", timeout=600))
    return dict(level="model_checking", jobs=jobs,
                rule="FetchBlob with several mirrors (dead mirror last / first, two good mirrors) among the write paths of the status-mapping part; (1) explicit-state BFS on the real SizedLRU with hard limit in {unset, max, max+1, max+2 blocks}: admission <=> size<=max and reserved+size<=max and accounted+backlog+size<=limit, refused => nothing changed; (2) all <=2/3-preemption schedules of two uploads + an existence check into a full cache with the background remover (and its backlog counter) under scheduler control, so every amount of deletion lag occurs; (3) every write path against a full cache at server level for the 507 / RESOURCE_EXHAUSTED mapping",
                assumptions=E2_ASSUME[:2] + E1_ASSUME + ["E1 here also makes the backlog counter's atomic operations scheduling points"])


def check_C08(ctx):
    th = ctx.thorough()
    b = ctx.bin(DISK)
    budget = 2400 if th else 300
    jobs = []
    for h in C08_HISTORIES:
        for mode in ("zstd", "uncompressed"):
            shards = 6 if h in ("H2-ac-overwrite", "H4-evict") else 2
            for sh in range(shards):
                jobs.append(Job(b, "TestVfC08", name="C08:%s/%s#%d" % (h, mode, sh), timeout=budget + 120,
                                env={"VERIF_PARAM_HISTORY": h, "VERIF_PARAM_MODE": mode, "VERIF_BUDGET_S": str(budget),
                                     "VERIF_SHARD": "%d/%d" % (sh, shards), "GOMAXPROCS": "2"}))
    return dict(level="fault_enumeration", jobs=jobs,
                rule="for each history x storage mode before x remover policy: the directory at every scheduling point of the real write path (file-namespace operations, every Read of the uploader's reader or backend stream, before commit, before every background unlink) is a crash image; each is expanded with every torn length of every file written since the previous point and every partial in-place overwrite (chunk-table rewrite); every distinct image is restarted with the real disk.New in both storage modes and every key is read with known/unknown size, plain and zstd; history H6: a 100 KiB action-cache value handed over as one in-memory buffer (reader offering WriteTo, as the servers do); every violation is classed as a crash state BETWEEN two file-system steps (empty file / partial value) or INSIDE one write step (power-loss model, beyond the stated crash points); action-cache values are real serialised ActionResults and the validating read path (GetValidatedActionResult) is asked at every crash state between two steps; non-trivial = distinct (history, modes, kill point) images that restarted and passed the oracle",
                assumptions=["process kill, not power loss: bytes written before the kill are on disk in order; torn writes within a file are modelled as prefixes / partial in-place overwrites",
                             "file access and modification times of the image are restored on the restart copy",
                             "histories are sequential; the background remover runs either as late or as early as possible (two policies)"])


def check_C09(ctx):
    th = ctx.thorough()
    b = ctx.bin(DISK)
    shards = 16
    budget = 2400 if th else 200
    jobs = [Job(b, "TestVfC09", name="C09#%d" % i, timeout=budget + 120,
                env={"VERIF_SHARD": "%d/%d" % (i, shards), "VERIF_BUDGET_S": str(budget), "GOMAXPROCS": "2"}) for i in range(shards)]
    return dict(level="exploration", jobs=jobs,
                rule="exhaustive over a grammar of directory populations: every single entry, every ordered pair and (representative / all) ordered triples over 10 layout-kinds (v2 zstd CAS, v2 .v1 CAS, v2 AC, v2 RAW, legacy flat and two-level cas/ac/raw) with size patterns over {1 B, 1 block, 3 blocks}, atime rank = position; plus lost+found/.DS_Store at every level and duplicate files for one key; x max_size in {total+1 block, total, total-1 block, largest-1 block, 1 block} x storage mode after restart; real disk.New on each; access times only 1 ns / 1 us / 300 us / 7 ms apart: four same-kind entries in all 24 orders relative to their names; a compressible three-block entry (one block on disk): fits where its logical size does not; non-trivial = distinct (kind multiset, max_size class, mode, survivors) combinations",
                assumptions=["file access times are set explicitly with Chtimes, one hour apart (no ties)",
                             "reference: file-level simulation of 'evict oldest atime first; a file larger than max_size is dropped and displaces nothing'",
                             "duplicates are checked with a max_size that needs no eviction"])


C13_EXTRAS = ["none", "idle_timeout", "metrics_prefix", "instance_mangling", "no_deps_check", "uncompressed", "max_blob_size", "http_timeouts", "no_ac_validation", "hard_limit"]


def check_C13(ctx):
    b = ctx.bin(".")
    jobs = []
    cfgs = [("none", "0")]
    for a in ("htpasswd", "mtls"):
        for u in ("0", "1"):
            cfgs.append((a, u))
    for a, u in cfgs:
        for m in ("0", "1"):
            for asset in (("1", "0") if (ctx.thorough() or (a, u, m) == ("htpasswd", "0", "0")) else ("1",)):
                for extra in C13_EXTRAS:
                    if extra != "none" and asset == "0" and not ctx.thorough():
                        continue
                    jobs.append(Job(b, "TestVfC13", name="C13:%s/unauth%s/metrics%s/asset%s/%s" % (a, u, m, asset, extra), timeout=600,
                                    env={"VERIF_PARAM_AUTH": a, "VERIF_PARAM_UNAUTHREADS": u, "VERIF_PARAM_METRICS": m, "VERIF_PARAM_ASSET": asset, "VERIF_PARAM_EXTRA": extra, "GOMAXPROCS": "2"}))
    return dict(level="exploration", jobs=jobs,
                rule="full product {no auth, htpasswd, mTLS} x allow_unauthenticated_reads x endpoint metrics x one further option of {none, idle_timeout, http_metrics_prefix, instance mangling, no deps check, uncompressed storage, max_blob_size, HTTP timeouts, HTTP AC validation off, hard limit} x 7 HTTP methods x 6 endpoints x every gRPC method of every protobuf service linked into the binary that the server has registered x credential state; against the real run() of package main on unix sockets; mTLS credential states {no certificate, certificate of an unknown CA, certificate of a CA that is the process's system trust store but not in tls_ca_file, valid}, certificates presented unconditionally; non-trivial = distinct (config, method, endpoint, credential) cells where authentication was enabled and the expected decision was observed",
                assumptions=["one server process per configuration, started through main's run() with command-line flags; certificates generated with crypto/x509; htpasswd entry {SHA}",
                             "gRPC requests are empty messages: a method counts as registered when a fully authorised client does not get Unimplemented",
                             "a method unknown to the harness's read-only list is treated as mutating"])


CHECKS = {"C01": check_C01, "C02": check_C02, "C08": check_C08, "C09": check_C09, "C06": check_C06, "C10": check_C10, "C11": check_C11, "C12": check_C12, "C13": check_C13, "C14": check_C14, "C15": check_C15, "C16": check_C16, "C17": check_C17, "C18": check_C18, "C19": check_C19, "C20": check_C20, "C03": check_C03, "C04": check_C04, "C05": check_C05, "C07": check_C07}

# per-property manifest metadata
META = {
    "C01": dict(
        category="exploration", engine="E4 grid",
        text="Bounded-exhaustive grid over the real handlers: every one of the 13 CAS write paths (HTTP PUT plain/zstd, BatchUpdateBlobs identity/zstd, ByteStream blobs/ and compressed-blobs/zstd, SpliceBlob with/without digest, blobs inlined in UpdateActionResult as file contents/stdout/stderr, FetchBlob with/without checksum.sri) x {zstd,uncompressed} storage x {go,cgo} zstd x sizes 1, 4 KiB and 1 MiB edges, multi-chunk x every corruption kind (bit flips, truncation, extension, wrong size/hash, malformed hash, unsupported compressor, zstd garbage/cut/trailing/extra frame, aborted stream). Oracle: acknowledged <=> well formed; acknowledged => reported present by FindMissingBlobs and HEAD and read back identically; rejected => error status, claimed digest absent, no file under a hash the payload does not have; accounting/directory invariants after each path.",
        note="Finite grid (small-scope): sizes are boundary-chosen, contents are pseudo-random or mostly zero; client aborts are cancelled contexts / failing body readers.",
        technique="exhaustive enumeration of a finite input/configuration grid through the real entry points against an acceptance oracle",
        design_ref="DESIGN.md 2.5, 3 (C01)"),
    "C02": dict(
        category="exploration", engine="E4 grid",
        text="Bounded-exhaustive grid over the real read handlers: blobs written under each (storage mode, zstd implementation) and read after a restart under each other configuration (16 pairs) through HTTP GET plain/zstd, BatchReadBlobs identity/zstd, ByteStream.Read blobs/ and compressed-blobs/zstd at offsets {0,1,chunk-1,chunk,chunk+1,2chunk,n-1,n} x read_limit {0,1,rest-1,rest,rest+1}, GetTree and inlined ActionResult fields; plus files produced by the harness's own v2 writer with 4/8 KiB chunks read at every offset 0..n; plus the empty blob on every path. Oracle: decoded bytes (two independent zstd decoders) == content[off:n], prefix property on errors, limit respected, size reported == n, reads of present blobs with off<n succeed.",
        note="Finite grid; chunk-boundary arithmetic is exercised exhaustively on small-chunk files and at boundary offsets on 1 MiB-chunk files.",
        technique="exhaustive enumeration of a finite input/configuration grid through the real entry points against a byte-exact oracle",
        design_ref="DESIGN.md 2.5, 3 (C02)"),
    "C08": dict(
        category="fault_enumeration", engine="E3 faultx",
        text="Crash-point enumeration on the real write path: six histories (upload, 3-chunk upload, AC overwrite, rejected upload + retry, upload that evicts, backend fetch) x storage mode x remover policy run under the scheduler; the directory at every scheduling point is a kill image, expanded with every torn length of files written since the previous point and every partial in-place overwrite of the chunk table; every distinct image (hundreds to thousands per history) is restarted with the real disk.New in both storage modes and all keys are read with known/unknown size, identity and zstd. Oracle: restart succeeds; acknowledged and not evicted => served identically; nothing served that fails its digest / is not a completed AC value; accounting and directory invariants after the first reads; the interrupted upload can be repeated.",
        note="Process kill, not power loss (no reordering of unsynced blocks). Three genuine design-level findings are recorded in known_findings.txt (in-place writes of .v1 and AC/RAW files).",
        technique="exhaustive crash-point and torn-write enumeration of short histories on the real code, restart + read oracle",
        design_ref="DESIGN.md 2.4, 3 (C08)"),
    "C09": dict(
        category="exploration", engine="E4 grid",
        text="Bounded-exhaustive enumeration of cache directory populations (all singles, ordered pairs and ordered triples over ten layout kinds incl. the legacy flat/two-level ac/ cas/ raw/ layouts, .v1 and compressed CAS, with block-edge sizes and atime order = position; lost+found and .DS_Store at every level; duplicate files per key) x max_size (above/equal/below total, below the largest file, one block) x storage mode after restart, each started with the real disk.New. Oracle: start-up succeeds; survivors == oldest-first eviction simulation; each survivor readable with identical content and size (size known and unknown); no leftover files or legacy directories; accounting == directory; later uploads evict the survivors in atime order.",
        note="Small-scope: <=3 entries per population, three size classes; atimes set explicitly.",
        technique="exhaustive enumeration of a bounded grammar of on-disk states x configurations, real start-up code, reference simulation oracle",
        design_ref="DESIGN.md 3 (C09)"),
    "C14": dict(
        category="exploration", engine="E4 grid",
        text="Small-scope structural enumeration through the real handlers with panic-recording interceptors and a watchdog: every digest shape (nil, empty, present, absent, empty blob, negative/huge size, malformed hashes) at every digest position of every gRPC request type; FetchBlob uri x qualifier shapes; stored blobs that get interpreted as Directory, Tree or ActionResult (garbage, nil and malformed digests, missing children); every token sequence up to length 4/5 over 14 resource-name tokens for ByteStream.Read (with offset/limit sets), Write and QueryWriteStatus; URL paths x HTTP methods; PUT header products; every ByteStream.Write message sequence up to length 3 over 9 message kinds with a client abort after every prefix (and the stream closed without any message). Oracle: no panic, every call completes, malformed digests never answered OK; after the calls no goroutine inside repository request code, no active handler, reserved==0, directory==index, descriptors back to baseline.",
        note="Exhaustive over shapes and token sequences up to the stated bounds (small-scope hypothesis); byte-level fuzzing would be a different technique family and is not done.",
        technique="exhaustive enumeration of bounded request shapes / token sequences / message sequences through the real entry points with crash, hang and leak oracles",
        design_ref="DESIGN.md 3 (C14)"),
    "C15": dict(
        category="model_checking", engine="E2 seqx + E4 grid",
        text="Explicit-state BFS over all operation sequences (depth 3 quick / 4 thorough) on a real disk cache whose alphabet makes the CAS, the validated AC and the raw AC collide on a single hash; every transition is compared with per-key-space reference maps (a write, overwrite, failed write or eviction in one space never changes what another space returns; zstd reads are only served from the CAS). Server level: every pairing of 12 instance names for write and read, through both front ends in both directions, with mangling on/off and HTTP validation on/off: with mangling a value is returned exactly for its own instance name (HTTP prefix == gRPC instance_name), without mangling for all; raw and validated caches independent; CAS ignores instance prefixes.",
        note="Bounded depth/alphabet for the BFS; the instance-name alphabet is finite but chosen adversarially from the URL grammar.",
        technique="explicit-state BFS with colliding keys + exhaustive instance-name x front-end product",
        design_ref="DESIGN.md 3 (C15)"),
    "C16": dict(
        category="exploration", engine="E4 grid",
        text="Bounded-exhaustive enumeration of ByteStream.Write message sequences against the real handler: every composition of a small payload into messages (including empty and one-byte messages), finish_write placement, resource name omitted/repeated/changed on later messages, first write_offset 0/1, declared size n/n-1/n+1, blob present or absent beforehand, blobs/ and compressed-blobs/zstd, instance-name prefixes, trailing metadata and unparsable names. Oracle from the statement: committed_size == payload bytes sent (or size / -1 on the early return for an existing blob), presence afterwards, malformed streams fail and store nothing, QueryWriteStatus complete with the full size exactly when present.",
        note="Channel/pipe interleavings inside the handler are not controlled (Go channel operations cannot be intercepted by import rewriting); inputs are enumerated exhaustively.",
        technique="exhaustive enumeration of bounded message sequences through the real stream handler against a protocol table",
        design_ref="DESIGN.md 3 (C16)"),
    "C20": dict(
        category="exploration", engine="E4 grid",
        text="Format compatibility decided in both directions against an independent implementation of the published v2 layout (skippable-frame header with logical size, compression type, chunk size, offset table; independently compressed chunks; file naming per key space) and against golden artefacts of the pinned release: this build must serve files produced by the independent writer for every chunk size / encoder / suffix shape in the grid, everything it writes must parse with the independent reader using both zstd implementations and follow the naming scheme, the pinned golden directory must read back identically in all configurations, and every file, URL, resource and object name must equal the pinned table and be injective.",
        note="Chunk sizes and encoder settings are a finite grid; S3/Azure clients are not executed, only their key functions.",
        technique="exhaustive finite grid with an independent format implementation (both directions) + pinned golden files",
        design_ref="DESIGN.md 3 (C20)"),
    "C19": dict(
        category="exploration", engine="E4 grid",
        text="Deviation-bounded exhaustive enumeration of configurations through the real front ends (urfave/cli flags incl. their environment variables, and the YAML loader): required settings plus all subsets of up to 2 (3) of 28 settings x values, each given three ways; differential oracle: the three effective Config structs (basic fields) must be identical, no expected values written by hand; deprecated host/port forms mean the same as the address forms; 21 classes of set-ups that cannot work (missing dir/max_size, unknown storage mode or zstd implementation, one port for HTTP and gRPC, half-specified TLS, mTLS without server certificate, unauthenticated reads without authentication, two proxy backends, non-positive blob limits, malformed listener addresses, asset API without gRPC) must be refused by all three front ends, alone and next to every other valid deviation.",
        note="S3/Azure/LDAP nested settings are covered through one representative each; their own validation rules are not enumerated.",
        technique="exhaustive deviation-bounded configuration enumeration with a three-way differential oracle",
        design_ref="DESIGN.md 3 (C19)"),
    "C18": dict(
        category="exploration", engine="E4 grid",
        text="Exhaustive finite grid on both sides of each limit: every write path (13) x max_blob_size {1, 4 KiB, 1 MiB} x size {L-1, L, L+1, 4L} x compressible/incompressible content x storage mode: accept <=> logical size <= L, refusals are client errors and store nothing, GetCapabilities.max_cas_blob_size_bytes == L; every backend-read path x max_proxy_blob_size x object size {P-1, P, P+1}: oversize objects are never served, cached or reported present, and the backend is not asked when the requested size already exceeds the limit.",
        note="Boundary-chosen sizes; limits are taken from the code's comparisons (<=) and the statement.",
        technique="exhaustive enumeration of a finite limit x size x path grid through the real entry points",
        design_ref="DESIGN.md 3 (C18)"),
    "C17": dict(
        category="model_checking", engine="E2 seqx + E1 vsched + E4 grid",
        text="Admission under max_size_hard_limit decided three ways: explicit-state BFS over reserve/add/get/remove/remover-step sequences on the real SizedLRU for limits {unset, max, max+1 block, max+2 blocks} with the exact iff-oracle and 'refused => nothing changed'; schedule exploration of concurrent uploads into a full cache with the background remover and its atomic backlog counter owned by the scheduler (all amounts of deletion lag), checking status codes, 'never refused when the option is unset', retry-after-drain and the accounting/directory invariants; and the HTTP 507 / gRPC RESOURCE_EXHAUSTED mapping plus 'reads keep working' on every write path at server level.",
        note="Retry-after-drain is required only when the item fits under the limit next to what is accounted after the drain (with limit close to max_size a full cache refuses large items permanently: admission precedes eviction by design).",
        technique="explicit-state BFS + preemption-bounded schedule DFS over the real code with the remover under scheduler control",
        design_ref="DESIGN.md 3 (C17)"),
    "C06": dict(
        category="exploration", engine="E4 grid + E5 spin",
        text="Bounded-exhaustive grid through gRPC GetActionResult, HTTP GET and HEAD: every ActionResult shape of a small grammar (output files digest-only/inline/empty, output directory Trees with root/child files and nil digests, stdout/stderr digests) x every assignment of present / absent / other-size (or backend-only) to its referenced blobs (<=5 quick, <=7 thorough), 25 output files with each one absent, recency of referenced blobs after a hit. The join of the backend existence checks (Go select picks randomly among ready cases) is decided on a Promela model checked exhaustively by Spin for 2-4 digests, and bound to the code by replaying EVERY complete model path (one trail per path) against the real functions with gates at the hooks, comparing the implementation's answers (25 repetitions where the model says the choice is nondeterministic) with what the model allows.",
        note="Trail replay uses short settling waits for the two model events that have no hook (worker wg.Done, helper close); a mismatch there is reported as BROKEN-HARNESS, never as a violation.",
        technique="exhaustive input-shape enumeration through the real handlers + Spin model checking with all trails replayed against the implementation",
        design_ref="DESIGN.md 2.6, 3 (C06)"),
    "C10": dict(
        category="exploration", engine="E4 grid + E1 vsched + E2 seqx",
        text="Bounded-exhaustive enumeration of FindMissingBlobs request lists through the real gRPC handler (lengths 0..45; every index for single-missing, single-present, size-mismatch and empty-digest lists; all present/absent patterns in windows across the internal batch size of 20; duplicates), with a scriptable backend all 5^k assignments of {local, backend only, absent, too large for max_proxy_blob_size, other size in backend} at the head and across the batch boundary; every schedule (bounded preemptions) of a 25-digest call against two concurrent uploads; and FindMissing as an operation in the explicit-state search. Oracle: response == requested digests the model says absent, same order, duplicates kept.",
        note="Lists beyond 45 digests only add further full batches of 20, which the code handles by the same loop iteration.",
        technique="exhaustive input enumeration through the real handler + schedule DFS + explicit-state BFS",
        design_ref="DESIGN.md 3 (C10)"),
    "C11": dict(
        category="exploration", engine="E4 grid",
        text="Bounded-exhaustive message grammar through the real handlers: valid ActionResults with every field class populated and every single-field invalid variant at every position, through gRPC UpdateActionResult and HTTP PUT as protobuf / JSON, plain and zstd; accepted <=> valid; a rejected upload leaves no entry (all three read views miss, no file); an accepted one is served equal to the upload modulo the worker name, identically through gRPC, HTTP protobuf and HTTP JSON; inlined stdout/stderr/file contents are stored in the CAS under their true digest and re-inlined exactly as requested and as the 3 MiB budget allows (all 8 request combinations at three sizes); raw key space with validation off stores bytes verbatim; the latest accepted upload wins across encodings with invalid uploads interleaved.",
        note="Small-scope hypothesis over message shapes: one invalid field at a time.",
        technique="exhaustive enumeration of a bounded message grammar x encodings through the real entry points",
        design_ref="DESIGN.md 3 (C11)"),
    "C12": dict(
        category="fault_enumeration", engine="E3 faultx + E2 seqx",
        text="Deviation-bounded enumeration of backend behaviour against the real disk cache: at the cache.Proxy seam every kind x storage mode x size known/unknown x plain/zstd read x {error, not found, nil reader, five size-metadata lies, one-byte reads, cancelled context, stream error at every byte offset, clean EOF at every byte offset} (pairs in the thorough tier), followed by a fault-free read, a local-only read with the backend emptied (poisoning) and the quiescence invariants (reserved 0, directory == index, every backend stream closed); through the real httpproxy (in front of a plain HTTP object store with a fault layer cutting responses at every byte, 404/500, no Content-Length; two identical rounds must not grow goroutines/fds) and the real grpcproxy chained to a second real cache (write-through reaches the backend once and a fresh peer recovers the identical blob; absent entries miss without panic); plus BFS over operation sequences with a backend (write-through exactly once and decodable by the independent format reader).",
        note="Backend trusted for content it delivers completely. S3/Azure/GCS client libraries are not executed (no offline fakes); they share the seam and the disk-layer checks.",
        technique="exhaustive single/pair fault enumeration at every stage and byte offset of the backend interaction on the real code",
        design_ref="DESIGN.md 2.4, 3 (C12)"),
    "C13": dict(
        category="exploration", engine="E4 grid",
        text="Exhaustive finite access matrix against the real start-up code: main's run() is started with flags for each of {no auth, htpasswd, mTLS} x allow_unauthenticated_reads x enable_endpoint_metrics (x remote asset API), on unix sockets; every HTTP method x endpoint (/cas, /ac, instance-prefixed /ac, /status, /metrics, /) and every registered gRPC method (discovered from all linked protobuf service descriptors) is called with every credential state (none, malformed, not-basic, unknown user, wrong/empty password, via authorization and via :authority; no / unverified / valid client certificate). Oracle written from the property: mutating or unknown => refused without valid credentials always; read-only => refused unless allow_unauthenticated_reads; valid => never refused; health Check always open; cache content unchanged.",
        note="The matrix is finite and enumerated completely; requests carry empty/invalid payloads, so acceptance is observed as 'not 401/Unauthenticated'. LDAP is not exercised (needs a directory server).",
        technique="exhaustive enumeration of the finite configuration x method x credential space against the running server",
        design_ref="DESIGN.md 3 (C13)"),
    "C03": dict(
        category="model_checking", engine="E2 seqx + E1 vsched",
        text="Explicit-state search: BFS over all operation sequences (depth 4 quick / 6 thorough at LRU level over add/get/reserve/unreserve/remove/remover-step with block-edge sizes; depth 3 / 4 at cache level over good and failing uploads, lookups, overwrites and backend fetches) with every transition executed on the real code, the accounting equation, reserved==0 and Stats()==index checked in every state; plus every <=2/3-preemption schedule of three concurrent scenarios with the equation checked at every scheduling point.",
        note="Bounded depth and alphabets; per-point check reads private index state through the injected adapter; /status JSON is covered by the server-level grids.",
        technique="explicit-state BFS over the real transition functions with canonical state hashing + preemption-bounded schedule DFS",
        design_ref="DESIGN.md 2.3, 3 (C03)"),
    "C04": dict(
        category="model_checking", engine="E2 seqx + E1 vsched",
        text="Explicit-state BFS over operation sequences on a real disk cache including every failing-upload variant and faulty backend fetches; after each transition (deletions drained) a full directory walk must equal the index; plus directory==index at quiescence of every explored schedule of four concurrent scenarios.",
        note="Bounded depth/alphabet; full walk at each checked step; remover drained by waiting for its queue to empty.",
        technique="explicit-state BFS over the real cache with fault cells + schedule DFS, directory==index oracle",
        design_ref="DESIGN.md 2.3, 3 (C04)"),
    "C05": dict(
        category="model_checking", engine="E2 seqx",
        text="Explicit-state BFS over sequential histories on the real SizedLRU (exact minimal-tail oracle) and on a real disk cache (reference recency model: victims form an LRU tail, at most the minimal tail for max(logical, on-disk) next to the replaced version, none if it fits; accepted upload present; oversize rejected without eviction; every kind of hit is a use).",
        note="Bounded depth/alphabet with sizes on block and max_size edges in both storage modes.",
        technique="explicit-state BFS over the real code against a reference LRU model",
        design_ref="DESIGN.md 2.3, 3 (C05)"),
    "C07": dict(
        category="model_checking",
        text="Stateless model checking of the real disk cache: a cooperative scheduler owns every index-mutex acquire, file-namespace operation and the background remover's receive; a DFS explorer runs every interleaving of each 2-3 request scenario (shared keys, corrupt files, space pressure) up to a preemption bound (2 quick / 3 thorough). Oracle per execution: every read is a miss or the whole value of an upload not wholly after it, no lost acknowledgement, accounting equation at every scheduling point, directory == index at quiescence, no deadlock. A separate free-running -race pass covers unsynchronised accesses.",
        note="Trusts: Lipton reduction between owned points (thread-local code in between); sequential consistency; the harness adapter reading private index state; preemption bound. Free-running goroutines (contains workers) are excluded from scenarios.",
        technique="stateless DFS over schedules of the real code under a controlled scheduler, preemption-bounded (CHESS-style)",
        design_ref="DESIGN.md 2.2, 3 (C07)"),
}


def write_manifest():
    props = [json.loads(l) for l in open(os.path.join(V.VERIF, "properties.jsonl"))]
    hooks_commits = []
    try:
        import subprocess
        out = subprocess.run(["git", "-C", V.REPO, "log", "--format=%H %s"], capture_output=True, text=True).stdout
        for line in out.splitlines():
            h, _, subj = line.partition(" ")
            if subj.startswith("verif hooks"):
                hooks_commits.append(h)
    except Exception:
        pass
    m = {
        "version": 1,
        "setup_cmd": "./check setup",
        "hooks": {
            "guard": "verif",
            "enable": "go test -tags verif -overlay <generated>: /repo's working tree plus import shims (sync/os/atomic of cache/disk redirected to scheduler-aware packages), injected drivers and the harness packages; utils/verifhook call sites become scheduler points",
            "baseline_off_cmd": "cd /repo && go test -mod=mod -json -vet=off -count=1 -timeout 25m ./...",
            "source_commits": hooks_commits,
            "add_only": True,
        },
        "engines": [
            {"name": "E5 spin", "path": "models/findmissing.pml", "serves_properties": ["C06", "C10"],
             "kind_free_text": "Promela model of the fail-fast backend join, checked by Spin; every trail replayed against the implementation (lib/e5.py, vf_e5_test.go)"},
            {"name": "E2 seqx", "path": "go/inj/cache/disk/vf_e2lru_test.go", "serves_properties": ["C03", "C04", "C05", "C15", "C17", "C12", "C10"],
             "kind_free_text": "explicit-state BFS over operation sequences on the real SizedLRU / disk cache with canonical state hashing"},
            {"name": "E3 faultx", "path": "go/inj/cache/disk/vf_c08_test.go", "serves_properties": ["C08", "C12", "C04"],
             "kind_free_text": "crash-point / torn-write and backend-fault enumeration on the real code"},
            {"name": "E4 grid", "path": "go/inj/verifdrv/grid", "serves_properties": ["C01", "C02", "C06", "C09", "C10", "C11", "C13", "C14", "C15", "C16", "C18", "C19", "C20"],
             "kind_free_text": "exhaustive finite grids through the real HTTP/gRPC entry points and start-up code"},
            {"name": "E1 vsched", "path": "go/vsched", "serves_properties": ["C07", "C03", "C04", "C10", "C17"],
             "kind_free_text": "controlled cooperative scheduler + stateless DFS explorer with preemption bound over the real disk cache"},
        ],
        "checks": [],
        "notes": "All checks: ./check <id> quick|thorough. Exit 0 held, 1 VIOLATION, 2 BROKEN-HARNESS (never a verdict). Known findings: known_findings.txt.",
        "not_applicable": [],
    }
    for p in props:
        pid = p["id"]
        if pid in CHECKS and pid in META:
            md = META[pid]
            m["checks"].append({
                "property_id": pid,
                "quick_cmd": "./check %s quick" % pid,
                "thorough_cmd": "./check %s thorough" % pid,
                "evidence_file": "/verif/evidence/%s.json" % pid,
                "replay_cmd_template": "./check %s --replay {path}" % pid,
                "engine": md.get("engine", "E1 vsched"),
                "level_claimed": {"category": md["category"], "text": md["text"], "design_ref": md.get("design_ref", "DESIGN.md 3")},
                "level_note": md["note"],
                "technique": md["technique"],
            })
        else:
            m["not_applicable"].append({"property_id": pid, "reason": "check not built yet (in progress; DESIGN.md section 3 describes the planned model-checking check)"})
    json.dump(m, open(os.path.join(V.VERIF, "MANIFEST.json"), "w"), indent=1)
    print("MANIFEST.json: %d checks, %d not_applicable" % (len(m["checks"]), len(m["not_applicable"])))
    return 0


def main(argv):
    if not argv:
        print("usage: check <id> quick|thorough [--replay file] | setup | list")
        return 2
    if argv[0] == "setup":
        return setup()
    if argv[0] == "manifest":
        return write_manifest()
    if argv[0] == "list":
        print(" ".join(sorted(CHECKS)))
        return 0
    prop = argv[0]
    tier = os.environ.get("VERIF_TIER") or (argv[1] if len(argv) > 1 and argv[1] in ("quick", "thorough") else "quick")
    if len(argv) > 1 and argv[1] in ("quick", "thorough"):
        tier = argv[1]
    seed = int(os.environ.get("VERIF_SEED", "1") or 1)
    mutant = os.environ.get("VERIF_MUTANT") or None
    if prop not in CHECKS:
        print("unknown check", prop)
        return 2
    atexit.register(V.cleanup)
    t0 = time.time()
    ctx = None
    try:
        ctx = Ctx(prop, tier, seed, mutant)
        if "--replay" in argv:
            return replay(ctx, argv[argv.index("--replay") + 1])
        spec = CHECKS[prop](ctx)
        if os.environ.get("VERIF_JOBS"):
            # development aid: run only the jobs whose name matches (evidence goes to .build/evidence-mutant)
            import re as _re
            spec["jobs"] = [j for j in spec["jobs"] if _re.search(os.environ["VERIF_JOBS"], j.name)]
            print("VERIF_JOBS: %d jobs: %s" % (len(spec["jobs"]), " ".join(j.name for j in spec["jobs"])))
        jobs = V.run_jobs(spec["jobs"], os.path.join(ctx.work, "out"), tier, seed, parallel=spec.get("parallel"))
        rc = V.finish(prop, spec["level"], tier, seed, jobs, t0, spec["assumptions"], spec["rule"],
                      extra_cov=spec.get("extra_cov"), require_distinct=spec.get("require_distinct", 2))
        return rc
    except V.Broken as ex:
        print("BROKEN-HARNESS property=%s %s" % (prop, str(ex)[:6000]))
        return 2
    finally:
        if ctx is not None and not os.environ.get("VERIF_KEEP"):
            import shutil
            shutil.rmtree(ctx.work, ignore_errors=True)


def replay(ctx, path):
    d = json.load(open(path))
    rp = d.get("replay") or {}
    print(json.dumps(d, indent=1)[:4000])
    if "scenario" in rp and "choices" in rp:
        b = ctx.bin(DISK)
        job = Job(b, "TestVfE1", env={"VERIF_PARAM_PROPERTY": d["property"], "VERIF_PARAM_SCENARIO": rp["scenario"],
                                      "VERIF_PARAM_REPLAY": ",".join(str(c) for c in rp["choices"]) or ","})
        V.run_jobs([job], os.path.join(ctx.work, "out"), d.get("tier", "quick"), d.get("seed", 1))
        if job.report and job.report.get("violations"):
            for v in job.report["violations"]:
                print("REPRODUCED:", v["key"], "-", v["desc"])
            return 1
        print("not reproduced", job.crash or "")
        return 0
    print("no automatic replay for this artefact; see its 'replay' field")
    return 0


def setup():
    t0 = time.time()
    try:
        V.ensure_ovlgen()
        ctx = Ctx("setup", "quick", 1)
        # warm the Go build cache for every driver binary
        for pkg in (DISK, GRID, ".", "./config", "./cache/s3proxy", "./cache/azblobproxy"):
            ctx.bin(pkg)
        ctx.bin(DISK, race=True)
        import e5
        e5.verify(os.path.join(ctx.work, "spin"), 2, 1)
    except V.Broken as ex:
        print("BROKEN-HARNESS setup:", ex)
        return 2
    finally:
        pass
    import shutil
    shutil.rmtree(ctx.work, ignore_errors=True)
    print("setup done in %.1fs" % (time.time() - t0))
    return 0
