#!/bin/bash
# Regression sweep: every seeded change must make the quick check of its own property exit 1 with a
# VIOLATION line (never 0, never 2). Writes seeded/SWEEP.txt.
cd /verif
out=seeded/SWEEP.txt
: > $out.tmp
for d in seeded/C*/; do
  n=$(basename $d); id=${n%%-*}
  res=$(VERIF_MUTANT=$n ./check $id quick 2>&1)
  rc=$?
  v=$(echo "$res" | grep -c '^VIOLATION')
  echo "$n own-check=$id exit=$rc violation_lines=$v" | tee -a $out.tmp
done
mv $out.tmp $out
echo "caught: $(grep -c 'exit=1' $out) of $(wc -l < $out)"
