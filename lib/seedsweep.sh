#!/bin/bash
# Regression sweep: every seeded change must make the quick check of its own property exit 1 with a
# VIOLATION line (never 0, never 2). Writes seeded/SWEEP.txt.
# usage: seedsweep.sh [glob]   (default: all; e.g. 'C*-[56]' re-checks only rounds 5 and 6 and MERGES into SWEEP.txt)
cd /verif
out=seeded/SWEEP.txt
pat=${1:-C*}
: > $out.tmp
for d in seeded/$pat/; do
  n=$(basename $d); id=${n%%-*}
  res=$(VERIF_MUTANT=$n ./check $id quick 2>&1)
  rc=$?
  v=$(echo "$res" | grep -c '^VIOLATION')
  echo "$n own-check=$id exit=$rc violation_lines=$v" | tee -a $out.tmp
done
if [ "$pat" != "C*" ] && [ -f $out ]; then
  # keep the lines of the changes that were not re-run
  while read -r line; do n=${line%% *}; grep -q "^$n " $out.tmp || echo "$line" >> $out.tmp; done < $out
  sort -V -o $out.tmp $out.tmp
fi
mv $out.tmp $out
echo "caught: $(grep -c 'exit=1' $out) of $(wc -l < $out)"
