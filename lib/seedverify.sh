#!/bin/bash
# usage: seedverify.sh <id>   -- confirms a sub-agent's seeded change in its scratch worktree /tmp/seed-<id>
# and copies it to /verif/seeded/<id>/ . Prints a JSON summary line.
# usage: seedverify.sh <id> [round]   (round 2: worktree /tmp/seed2-<id>, kept as seeded/<id>-2)
id=$1
round=${2:-}
wt=/tmp/seed$round-$id
[ -n "$round" ] && id=$id-$round
export GOFLAGS=-mod=mod GOPROXY=off
set -u
mkdir -p /verif/seeded/$id
cp $wt/_seed/patch.diff /verif/seeded/$id/patch.diff
cp $wt/_seed/README.md /verif/seeded/$id/README.agent.md 2>/dev/null
for f in $wt/_seed/*_test.go $wt/_seed/*.go; do [ -f "$f" ] && cp "$f" /verif/seeded/$id/; done
cd $wt
demo=$(git status --porcelain | grep '^??' | grep '_test.go' | awk '{print $2}' | head -1)
tags=""
grep -q "go:build verif\|-tags verif" $wt/_seed/README.md $wt/$demo 2>/dev/null && tags="-tags verif"
pkg=./$(dirname $demo)/
run=$(grep -o 'func Test[A-Za-z0-9_]*' $wt/$demo | sed 's/func //' | paste -sd'|')
# without patch: demo must pass
git checkout -q -- . ; 
go test $tags -vet=off -count=1 -run "^($run)\$" $pkg > /tmp/sv-$id-clean.log 2>&1; clean=$?
# with patch
git apply _seed/patch.diff || { echo "{\"id\":\"$id\",\"error\":\"patch does not apply\"}"; exit 1; }
go build ./... > /tmp/sv-$id-build.log 2>&1; build=$?
go test $tags -vet=off -count=1 -run "^($run)\$" $pkg > /tmp/sv-$id-patched.log 2>&1; patched=$?
mv $wt/$demo /tmp/sv-$id-demo.go.keep
go test -vet=off -count=1 ./... > /tmp/sv-$id-suite.log 2>&1; suite=$?
if [ $suite -ne 0 ] && [ "$(grep -c '^--- FAIL' /tmp/sv-$id-suite.log)" = "1" ] && grep -q '^--- FAIL: TestEverything' /tmp/sv-$id-suite.log; then
  # known 1-second-sleep timing flake in cache/grpcproxy under load: re-run that package alone
  for i in 1 2 3; do go test -vet=off -count=1 ./cache/grpcproxy/ > /tmp/sv-$id-suite2.log 2>&1 && { suite=0; break; }; done
fi
mv /tmp/sv-$id-demo.go.keep $wt/$demo
git checkout -q -- .
echo "{\"id\":\"$id\",\"demo\":\"$demo\",\"tags\":\"$tags\",\"demo_clean_exit\":$clean,\"build_exit\":$build,\"demo_patched_exit\":$patched,\"suite_with_patch_exit\":$suite}"
