#!/bin/bash
# runs the repository's own test suite (guard off) and prints the number of passing tests
cd /repo && export GOFLAGS=-mod=mod GOPROXY=off && go test -json -vet=off -count=1 -timeout 25m ./... 2>/dev/null | python3 -c "
import sys,json
p=set();f=set()
for l in sys.stdin:
    try: d=json.loads(l)
    except: continue
    if d.get('Test') and d.get('Action') in('pass','fail'):
        (p if d['Action']=='pass' else f).add(d['Package']+'::'+d['Test'])
base=set(json.load(open('/root/.vp/BASELINE.json'))['stable_pass'])
print('pass',len(p),'fail',len(f),'baseline_missing',sorted(base-p))
"
