#!/usr/bin/env python3
"""Orchestrator for the bazel-remote verification checks.

Builds an overlay from /repo's current working tree (import shims, injected
drivers, optional mutant), compiles the driver test binaries, runs them
(sharded over processes), merges their reports into /verif/evidence/<id>.json,
applies /verif/known_findings.jsonl and prints VIOLATION / KNOWN-FINDING lines.
"""
import glob
import hashlib
import json
import os
import re
import shutil
import subprocess
import sys
import time
from concurrent.futures import ThreadPoolExecutor

VERIF = os.path.dirname(os.path.dirname(os.path.abspath(__file__)))
REPO = os.environ.get("VERIF_REPO", "/repo")
MOD = "github.com/buchgr/bazel-remote/v2"
BUILD = os.path.join(VERIF, ".build")
NCPU = os.cpu_count() or 4

SHIM_FILES = [
    "cache/disk/disk.go", "cache/disk/lru.go", "cache/disk/load.go",
    "cache/disk/findmissing.go", "cache/disk/options.go", "cache/disk/metrics.go",
    "utils/tempfile/tempfile.go:os",
]


def goenv():
    e = dict(os.environ)
    e["GOFLAGS"] = "-mod=mod"
    e["GOPROXY"] = "off"
    e.pop("GOSUMDB", None)
    e["GOTOOLCHAIN"] = "auto"
    e["CGO_ENABLED"] = "1"
    e.setdefault("GOCACHE", os.path.expanduser("~/.cache/go-build"))
    return e


def log(*a):
    print(*a, file=sys.stderr, flush=True)


def ensure_ovlgen():
    binp = os.path.join(BUILD, "ovlgen")
    src = os.path.join(VERIF, "go/ovlgen/main.go")
    if not os.path.exists(binp) or os.path.getmtime(binp) < os.path.getmtime(src):
        os.makedirs(BUILD, exist_ok=True)
        r = subprocess.run(["go", "build", "-o", binp, "."], cwd=os.path.join(VERIF, "go/ovlgen"),
                           env=goenv(), capture_output=True, text=True)
        if r.returncode != 0:
            raise Broken("cannot build ovlgen: " + r.stderr)
    return binp


class Broken(Exception):
    pass


def build_overlay(workdir, shims, mutant=None):
    """Returns path of overlay json. workdir is a private scratch dir."""
    os.makedirs(workdir, exist_ok=True)
    repl = {}
    # mutant: a diff (mutants/<name>.diff or seeded/<name>/patch.diff) applied
    # to private copies of the files it touches
    mut = {}
    if mutant:
        cands = [os.path.join(VERIF, "mutants", mutant + ".diff"), os.path.join(VERIF, "seeded", mutant, "patch.diff"), mutant]
        diff = next((c for c in cands if os.path.isfile(c)), None)
        if diff is None:
            raise Broken("no such mutant: " + mutant)
        mdir = os.path.join(workdir, "mut")
        touched = []
        for line in open(diff, errors="replace"):
            m = re.match(r"\+\+\+ (?:b/)?(\S+)", line)
            if m and m.group(1) != "/dev/null":
                touched.append(m.group(1))
        for rel in touched:
            dst = os.path.join(mdir, rel)
            os.makedirs(os.path.dirname(dst), exist_ok=True)
            if os.path.exists(os.path.join(REPO, rel)):
                shutil.copy(os.path.join(REPO, rel), dst)
        r = subprocess.run(["patch", "-p1", "-s", "-d", mdir, "-i", os.path.abspath(diff)], capture_output=True, text=True)
        if r.returncode != 0:
            raise Broken("mutant %s does not apply: %s" % (mutant, r.stdout + r.stderr))
        for rel in touched:
            src = os.path.join(mdir, rel)
            if rel.endswith(".go") and os.path.exists(src):
                mut[rel] = src
                repl[os.path.join(REPO, rel)] = src
    # generated shims (+ rewritten sources)
    og = ensure_ovlgen()
    args = []
    rels = []
    for spec in SHIM_FILES:
        rel, _, restrict = spec.partition(":")
        src = mut.get(rel, os.path.join(REPO, rel))
        if not os.path.exists(src):
            continue
        args.append(src + (":" + restrict if restrict else ""))
        rels.append((rel, src))
    # also any extra non-test go file in cache/disk that is not listed
    for p in sorted(glob.glob(os.path.join(REPO, "cache/disk/*.go"))):
        rel = os.path.relpath(p, REPO)
        if p.endswith("_test.go") or any(rel == r for r, _ in rels):
            continue
        src = mut.get(rel, p)
        args.append(src)
        rels.append((rel, src))
    ogdir = os.path.join(workdir, "og")
    r = subprocess.run([og, "-out", ogdir, "-mod", MOD] + args, cwd=REPO, env=goenv(),
                       capture_output=True, text=True)
    if r.returncode != 0:
        raise Broken("ovlgen failed: " + r.stderr)
    m = json.load(open(os.path.join(ogdir, "map.json")))
    for shim, f in m["shims"].items():
        repl[os.path.join(REPO, "utils/verifhook", shim, shim + ".go")] = f
    if shims:
        for rel, src in rels:
            if src in m["rewritten"]:
                repl[os.path.join(REPO, rel)] = m["rewritten"][src]
    # harness packages
    for f in glob.glob(os.path.join(VERIF, "go/vsched/*.go")):
        repl[os.path.join(REPO, "utils/verifhook/vsched", os.path.basename(f))] = f
    for f in glob.glob(os.path.join(VERIF, "go/vsem/*.go")):
        repl[os.path.join(REPO, "utils/verifhook/vsem", os.path.basename(f))] = f
    for f in glob.glob(os.path.join(VERIF, "go/vlib/*.go")):
        repl[os.path.join(REPO, "verifdrv/vlib", os.path.basename(f))] = f
    # injected files: go/inj/<relpath>/<file>
    inj = os.path.join(VERIF, "go/inj")
    injected_dirs = set()
    for root, _, files in os.walk(inj):
        for f in files:
            if f.endswith(".go"):
                src = os.path.join(root, f)
                rel = os.path.relpath(src, inj)
                repl[os.path.join(REPO, rel)] = src
                injected_dirs.add(os.path.dirname(rel))
    # hide the repository's own tests in packages we inject tests into
    for d in injected_dirs:
        for p in glob.glob(os.path.join(REPO, d, "*_test.go")):
            if p not in repl:
                repl[p] = ""
    ov = os.path.join(workdir, "overlay.json")
    json.dump({"Replace": repl}, open(ov, "w"), indent=1)
    return ov


def compile_test(pkg, overlay, out, race=False, tags="verif"):
    cmd = ["go", "test", "-c", "-vet=off", "-tags", tags, "-overlay", overlay, "-o", out]
    if race:
        cmd.append("-race")
    cmd.append(pkg)
    t0 = time.time()
    r = subprocess.run(cmd, cwd=REPO, env=goenv(), capture_output=True, text=True)
    if r.returncode != 0:
        raise Broken("compile failed for %s:\n%s" % (pkg, (r.stdout + r.stderr)[-6000:]))
    log("  compiled %s%s in %.1fs" % (pkg, " (race)" if race else "", time.time() - t0))
    return out


def build_binary(pkg, overlay, out, tags="verif"):
    cmd = ["go", "build", "-tags", tags, "-overlay", overlay, "-o", out, pkg]
    r = subprocess.run(cmd, cwd=REPO, env=goenv(), capture_output=True, text=True)
    if r.returncode != 0:
        raise Broken("build failed for %s:\n%s" % (pkg, (r.stdout + r.stderr)[-6000:]))
    return out


REPO_FRAME = re.compile(r"github\.com/buchgr/bazel-remote/v2/(cache|server|config|utils/(?!verifhook)|ldap)[^\s]*\.[A-Za-z(]")


class Job:
    """One driver process."""

    def __init__(self, binary, test, env=None, name=None, timeout=3600, cwd=None):
        self.binary, self.test, self.env, self.timeout = binary, test, dict(env or {}), timeout
        self.name = name or test
        self.cwd = cwd
        self.report = None
        self.crash = None
        self.output = ""


def run_jobs(jobs, workdir, tier, seed, parallel=None):
    parallel = parallel or NCPU
    os.makedirs(workdir, exist_ok=True)

    def run(i_job):
        i, job = i_job
        out = os.path.join(workdir, "report-%d.json" % i)
        scratch = os.path.join(scratch_root(), "job%d" % i)
        os.makedirs(scratch, exist_ok=True)
        env = goenv()
        env.update({"VERIF_OUT": out, "VERIF_TIER": tier, "VERIF_SEED": str(seed),
                    "VERIF_SCRATCH": scratch, "VERIF_DIR": VERIF, "VERIF_REPO": REPO})
        env.update(job.env)
        cmd = [job.binary, "-test.run", "^" + job.test + "$", "-test.timeout", "%ds" % (job.timeout + 120), "-test.count=1"]
        try:
            r = subprocess.run(cmd, cwd=job.cwd or scratch, env=env, capture_output=True, text=True,
                               timeout=job.timeout + 180, errors="replace")
            job.output = (r.stdout or "")[-20000:] + (r.stderr or "")[-60000:]
            rc = r.returncode
        except subprocess.TimeoutExpired as ex:
            job.output = "TIMEOUT\n" + str(ex.stdout or "")[-4000:] + str(ex.stderr or "")[-8000:]
            rc = -9
        shutil.rmtree(scratch, ignore_errors=True)
        if os.path.exists(out):
            try:
                job.report = json.load(open(out))
            except Exception as ex:  # noqa
                job.crash = "unreadable report: %s" % ex
        if job.report is None and job.crash is None:
            job.crash = "driver exited %s without a report" % rc
        elif rc != 0 and job.report is not None:
            # report written but test failed afterwards (t.Fatal) -> keep report, note failure
            job.report.setdefault("broken", []).append("driver exit code %s: %s" % (rc, job.output[-1500:]))
        return job

    with ThreadPoolExecutor(max_workers=parallel) as ex:
        list(ex.map(run, enumerate(jobs)))
    return jobs


_scratch = None


def scratch_root():
    global _scratch
    if _scratch is None:
        base = "/dev/shm" if os.path.isdir("/dev/shm") else "/var/tmp"
        _scratch = os.path.join(base, "verif.%d" % os.getpid())
        os.makedirs(_scratch, exist_ok=True)
    return _scratch


def cleanup():
    if _scratch:
        shutil.rmtree(_scratch, ignore_errors=True)


def load_known():
    """known_findings.txt lines:
    known: property=C09 id=<id> match=<regex on violation key> :: <what fails>
    fixed: property=C07 <commit> <what failed>      (suppresses nothing)
    """
    out = []
    p = os.path.join(VERIF, "known_findings.txt")
    if os.path.exists(p):
        for line in open(p):
            line = line.strip()
            m = re.match(r"known:\s+property=(\S+)\s+id=(\S+)\s+match=(.+?)\s+::\s+(.*)$", line)
            if m:
                out.append({"property": m.group(1), "id": m.group(2), "match": m.group(3), "what": m.group(4), "status": "known"})
    return out


def finish(prop, level, tier, seed, jobs, t0, assumptions, rule, extra_cov=None, require_distinct=2):
    """Merge job reports, write evidence, print verdict lines, return exit code."""
    cov = {"evaluations": 0, "states": 0, "transitions": 0, "traces_validated_against_impl": 0,
           "exhaustive": True, "samples": [], "caps": [], "parts": {}, "outcomes": {}, "skipped": {}}
    distinct = set()
    violations = []
    broken = []
    for job in jobs:
        if "WARNING: DATA RACE" in (job.output or ""):
            out = job.output
            i = out.index("WARNING: DATA RACE")
            blk = out[i:i + 4000]
            frames = [l.strip() for l in blk.splitlines() if REPO_FRAME.search(l) and "/vf_" not in l and "verifdrv" not in l]
            key = "%s data-race %s" % (prop, (frames[0] if frames else "?")[:140])
            violations.append({"key": key, "desc": "the Go race detector reports unsynchronised access in a free-running run of the scenario bodies:\n" + blk,
                               "replay": {"job": job.name, "env": job.env}})
            if job.report is not None:
                job.report["broken"] = [b for b in (job.report.get("broken") or []) if "driver exit code" not in b]
            if job.crash and job.report is None:
                continue
        if job.crash:
            m = REPO_FRAME.search(job.output or "")
            if ("panic:" in job.output or "fatal error:" in job.output) and m and "test timed out" not in job.output:
                frames = [l.strip() for l in job.output.splitlines() if REPO_FRAME.search(l) and "verifdrv" not in l and "/vf_" not in l]
                key = "%s driver-crash %s" % (prop, (frames[0] if frames else "?")[:160])
                violations.append({"key": key, "desc": "driver process crashed inside repository code:\n" + job.output[-3000:],
                                   "replay": {"job": job.name, "env": job.env}})
            else:
                broken.append("%s: %s\n%s" % (job.name, job.crash, job.output[-3000:]))
            continue
        r = job.report
        part = r.get("part") or job.name
        p = cov["parts"].setdefault(part, {"evaluations": 0, "states": 0, "transitions": 0, "distinct": 0, "wall_s": 0.0})
        for k, kk in (("evaluations", "evaluations"), ("states", "states"), ("transitions", "transitions")):
            cov[k] += r.get(kk, 0)
            p[k] += r.get(kk, 0)
        p["wall_s"] = round(p["wall_s"] + r.get("wall_s", 0), 2)
        p["distinct"] += len(r.get("distinct_keys") or [])
        cov["traces_validated_against_impl"] += r.get("traces_validated_against_impl", 0)
        if not r.get("exhaustive", True):
            cov["exhaustive"] = False
            cov["caps"] += ["%s: %s" % (part, c) for c in (r.get("caps") or [])]
        for k in r.get("distinct_keys") or []:
            distinct.add(part + ":" + k)
        for k, v in (r.get("outcomes") or {}).items():
            cov["outcomes"][k] = cov["outcomes"].get(k, 0) + v
        for k, v in (r.get("skipped") or {}).items():
            cov["skipped"][k] = cov["skipped"].get(k, 0) + v
        for s in (r.get("samples") or []):
            if len(cov["samples"]) < 8:
                cov["samples"].append(s)
        if r.get("extra"):
            p.setdefault("extra", {}).update(r["extra"])
        for v in r.get("violations") or []:
            violations.append(v)
        for b in r.get("broken") or []:
            broken.append("%s: %s" % (part, b))
    cov["distinct_nontrivial"] = len(distinct)
    cov["rule"] = rule
    if len(cov["outcomes"]) > 60:
        items = sorted(cov["outcomes"].items(), key=lambda kv: -kv[1])
        cov["outcomes"] = dict(items[:60])
        cov["outcomes"]["(other outcome classes)"] = len(items) - 60
    cov["distinct_outcomes"] = len(cov["outcomes"])
    if extra_cov:
        cov.update(extra_cov)
    if not cov["samples"]:
        cov["samples"] = ["(no sample recorded)"]
    if level == "model_checking":
        cov["states"] = max(cov["states"], 0)

    known = [k for k in load_known() if k.get("property") == prop and k.get("status") == "known"]
    rc = 0
    lines = []
    unknown = []
    seen_known = {}
    for v in violations:
        hit = None
        for k in known:
            if re.search(k["match"], v["key"]):
                hit = k
                break
        if hit:
            seen_known.setdefault(hit["id"], (hit, v))
        else:
            unknown.append(v)
    for kid, (k, v) in seen_known.items():
        lines.append("KNOWN-FINDING: property=%s %s [%s]" % (prop, k["what"], kid))
    # runs against a deliberately changed tree (VERIF_MUTANT) must not overwrite the evidence of the real tree
    evdir = os.path.join(VERIF, "evidence") if not (os.environ.get("VERIF_MUTANT") or os.environ.get("VERIF_JOBS")) else os.path.join(BUILD, "evidence-mutant")
    rdir = os.path.join(evdir, "replay")
    # drop stale replay files of this property
    for f in glob.glob(os.path.join(rdir, prop + "-*.json")):
        try:
            os.remove(f)
        except OSError:
            pass
    seen_keys = set()
    n = 0
    for v in unknown:
        if v["key"] in seen_keys:
            continue
        seen_keys.add(v["key"])
        n += 1
        os.makedirs(rdir, exist_ok=True)
        rp = os.path.join(rdir, "%s-%d.json" % (prop, n))
        json.dump({"property": prop, "tier": tier, "seed": seed, "key": v["key"], "desc": v["desc"], "replay": v.get("replay")},
                  open(rp, "w"), indent=1, default=str)
        lines.append("VIOLATION property=%s replay=%s" % (prop, rp))
        log("  violation: %s\n    %s" % (v["key"], v["desc"][:1500]))
        rc = 1
    if broken and rc == 0:
        rc = 2
    if rc == 0 and cov["distinct_nontrivial"] < require_distinct:
        broken.append("vacuity guard: distinct_nontrivial=%d" % cov["distinct_nontrivial"])
        rc = 2
    # counting guard: a driver that reports more distinct non-trivial cases than evaluations miscounts
    for pn, pv in cov["parts"].items():
        if pv.get("distinct", 0) > pv.get("evaluations", 0):
            broken.append("counting guard: part %s reports %d distinct cases for %d evaluations" % (pn, pv["distinct"], pv["evaluations"]))
            if rc == 0:
                rc = 2
    ev = {"property_id": prop, "tier": tier, "seed": seed, "level": level, "coverage": cov,
          "assumptions": assumptions, "wall_s": round(time.time() - t0, 2),
          "violations": len(seen_keys), "known_findings_seen": sorted(seen_known.keys())}
    if broken:
        ev["broken_harness"] = broken[:10]
    os.makedirs(evdir, exist_ok=True)
    json.dump(ev, open(os.path.join(evdir, prop + ".json"), "w"), indent=1, default=str)
    for b in broken[:10]:
        print("BROKEN-HARNESS property=%s %s" % (prop, b[:3000].replace("\n", "\n    ")))
    for l in lines:
        print(l)
    print("%s %s: evaluations=%d distinct_nontrivial=%d states=%d transitions=%d exhaustive=%s violations=%d known=%d wall=%.1fs -> exit %d" % (
        prop, tier, cov["evaluations"], cov["distinct_nontrivial"], cov["states"], cov["transitions"],
        cov["exhaustive"], len(seen_keys), len(seen_known), time.time() - t0, rc))
    return rc
