#!/bin/bash
# usage: benignrun.sh <diff-file> <own-property-id>
# Runs the quick checks relevant to the files a (property-preserving) change touches, with the diff
# applied through the overlay (VERIF_MUTANT=<path>); prints one line per check. Any exit != 0 is a false alarm
# (1) or a harness that does not survive the refactoring (2).
diff=$1; own=$2; only="${3:-}"
cd /verif
files=$(grep '^+++ b/' $diff | sed 's#^+++ b/##')
checks="$own"
for f in $files; do
  case $f in
    cache/disk/lru.go) checks="$checks C03 C05 C07 C17";;
    cache/disk/disk.go) checks="$checks C01 C03 C04 C05 C07 C12 C17 C18";;
    cache/disk/casblob/*) checks="$checks C01 C02 C08 C20";;
    cache/disk/load.go) checks="$checks C09 C08 C04";;
    cache/disk/findmissing.go) checks="$checks C06 C10";;
    cache/disk/*) checks="$checks C03 C07";;
    server/grpc_bytestream.go) checks="$checks C01 C02 C16 C14";;
    server/grpc_cas.go) checks="$checks C01 C02 C10 C14";;
    server/grpc_ac.go) checks="$checks C06 C11 C15 C14";;
    server/http.go) checks="$checks C01 C02 C11 C15 C14 C13";;
    server/grpc_asset.go) checks="$checks C01 C14";;
    server/*) checks="$checks C14 C13";;
    config/*|utils/flags/*) checks="$checks C19";;
    main.go) checks="$checks C13";;
    utils/validate/*) checks="$checks C11 C06";;
    cache/httpproxy/*|cache/grpcproxy/*) checks="$checks C12";;
    cache/s3proxy/*|cache/azblobproxy/*) checks="$checks C20";;
    utils/tempfile/*) checks="$checks C04 C08";;
  esac
done
[ -n "$only" ] && checks="$only"
checks=$(echo $checks | tr ' ' '\n' | sort -u | tr '\n' ' ')
for c in $checks; do
  out=$(VERIF_MUTANT=$diff ./check $c quick 2>&1)
  rc=$?
  echo "$(basename $(dirname $diff))/$(basename $diff) $c rc=$rc $(echo "$out" | tail -1 | cut -c1-160)"
  if [ $rc -ne 0 ]; then echo "$out" | grep -v compiled | head -12 | cut -c1-400 | sed 's/^/      /'; fi
done
