"""E5: Spin model of the fail-fast join (models/findmissing.pml).
verify(): exhaustive safety check of the model; trails(): one trail per complete
path (ENUM mode), parsed into event lists for replay against the implementation."""
import glob
import os
import re
import shutil
import subprocess

MODEL = os.path.join(os.path.dirname(os.path.dirname(os.path.abspath(__file__))), "models", "findmissing.pml")


def _build(work, defs):
    os.makedirs(work, exist_ok=True)
    shutil.copy(MODEL, os.path.join(work, "findmissing.pml"))
    for f in glob.glob(os.path.join(work, "*.trail")):
        os.remove(f)
    d = ["-D%s=%s" % kv for kv in defs.items()]
    r = subprocess.run(["spin", "-a"] + d + ["findmissing.pml"], cwd=work, capture_output=True, text=True)
    if r.returncode != 0:
        raise RuntimeError("spin -a failed: " + r.stdout + r.stderr)
    r = subprocess.run(["gcc", "-O2", "-w", "-o", "pan", "pan.c"], cwd=work, capture_output=True, text=True)
    if r.returncode != 0:
        raise RuntimeError("gcc pan.c failed: " + r.stderr[-2000:])
    return d


def verify(work, n, fixed):
    """returns dict(errors, states, transitions)"""
    _build(work, {"N": n, "FIXED": fixed})
    r = subprocess.run(["./pan", "-e", "-c0", "-m100000"], cwd=work, capture_output=True, text=True)
    out = r.stdout
    m = re.search(r"errors:\s*(\d+)", out)
    s = re.search(r"(\d+) states, stored", out)
    t = re.search(r"(\d+) transitions", out)
    if not m or not s:
        raise RuntimeError("cannot parse pan output:\n" + out[-2000:])
    return {"errors": int(m.group(1)), "states": int(s.group(1)), "transitions": int(t.group(1)) if t else 0,
            "n": n, "fixed": fixed}


def trails(work, n, failfast, cap=5000):
    d = _build(work, {"N": n, "ENUM": 1, "FAILFAST": failfast})
    r = subprocess.run(["./pan", "-e", "-c0", "-m100000"], cwd=work, capture_output=True, text=True)
    files = sorted(glob.glob(os.path.join(work, "*.trail")), key=lambda f: int(re.search(r"pml(\d+)\.trail", f).group(1)))
    out = []
    for f in files[:cap]:
        k = int(re.search(r"pml(\d+)\.trail", f).group(1))
        r = subprocess.run(["spin", "-t%d" % k] + d + ["findmissing.pml"], cwd=work, capture_output=True, text=True)
        ev = []
        res = None
        for line in r.stdout.splitlines():
            line = line.strip()
            if line.startswith("EV "):
                ev.append(line[3:].split())
            elif line.startswith("RES "):
                p = line.split()
                res = {"result": int(p[1]), "both": int(p[3]), "failfast": int(p[5]), "kinds": [int(x) for x in p[7:]]}
        if res is None:
            raise RuntimeError("trail %d has no RES line:\n%s" % (k, r.stdout[-1500:]))
        res["events"] = ev
        res["trail"] = k
        out.append(res)
    return out, len(files)
