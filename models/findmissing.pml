/*
 * Model of the join in cache/disk/findmissing.go
 * (findMissingCasBlobsInternal + containsWorker) for N locally missing
 * digests that have to be checked in the backend.
 *
 *   main:    for each digest: [fm.beforepoll] poll ctx -> wg.Add; enqueue
 *            start helper; [fm.beforeselect] select { ctx.Done | waitCh }
 *   worker:  [fm.worker] pre-check ctx -> backend answer (hit: slot=nil;
 *            miss: failFast ? flag=true; cancel ctx) -> wg.Done
 *   helper:  wg.Wait(); close(waitCh)
 *
 * Go's select chooses at random among ready cases: modelled as a
 * nondeterministic choice. FIXED=1 models the repaired code that re-checks
 * the fail-fast flag after the wait channel fired.
 *
 * Modes (cpp -D): ENUM=1 makes every complete path end in assert(false) so
 * that `pan -e -c0` writes one trail per path (hist[] keeps paths apart);
 * otherwise the safety property is asserted at the end of main.
 */
#ifndef N
#define N 2
#endif
#ifndef FIXED
#define FIXED 0
#endif

byte kind[N];        /* 0: backend holds it, 1: absent */
bool failFast;
bool ctxDone = false;
bool flag = false;   /* cancelledDueToFailFast */
byte wg = 0;
bool waitCh = false;
bool slotNil[N];
byte result = 0;     /* 0 running, 1 nil, 2 errMissingBlob */
bool both = false;   /* both select cases were ready */
byte nAbsent = 0;

#ifdef ENUM
#define HMAX 24
byte hist[HMAX];
byte hlen = 0;
#define REC(c) d_step { hist[hlen] = c; hlen++ }
#else
#define REC(c) skip
#endif

/* event codes: 10+i poll/enqueue i, 20+i worker i pre-check, 30+i worker i answer,
   40+i worker i done, 50 helper close, 60 select->ctx, 61 select->wait, 62 poll saw cancel */

proctype worker(byte i)
{
	bool cancelled;
	atomic { cancelled = ctxDone; REC(20+i); printf("EV pre %d %d\n", i, cancelled) }
	if
	:: cancelled -> skip
	:: else ->
		atomic {
			REC(30+i);
			printf("EV ans %d\n", i);
			if
			:: kind[i] == 0 -> slotNil[i] = true
			:: else ->
				if
				:: failFast -> flag = true; ctxDone = true
				:: else -> skip
				fi
			fi
		}
	fi;
	atomic { REC(40+i); printf("EV done %d\n", i); wg-- }
}

proctype helper()
{
	atomic { (wg == 0) -> REC(50); printf("EV close\n"); waitCh = true }
}

proctype mainp()
{
	byte i = 0;
	do
	:: i < N ->
		atomic {
			if
			:: ctxDone -> REC(62); printf("EV pollcancel %d\n", i); result = 2; goto done
			:: else -> REC(10+i); printf("EV poll %d\n", i); wg++; run worker(i); i++
			fi
		}
	:: else -> break
	od;
	run helper();
	atomic {
		(ctxDone || waitCh) ->
		both = (ctxDone && waitCh);
		if
		:: ctxDone -> REC(60); printf("EV select ctx\n"); result = 2
		:: waitCh -> REC(61); printf("EV select wait\n");
			if
			:: FIXED && flag -> result = 2
			:: else -> result = 1
			fi
		fi
	};
done:
	atomic {
		printf("RES %d both %d failfast %d kinds", result, both, failFast);
		i = 0;
		do
		:: i < N -> printf(" %d", kind[i]); i++
		:: else -> break
		od;
		printf("\n");
#ifdef ENUM
		assert(false)
#else
		/* fail fast: answering "nothing missing" implies nothing is absent */
		assert(!(failFast && result == 1 && nAbsent > 0));
		/* without fail fast the call always completes with exactly the hits removed */
		assert(failFast || result == 1)
#endif
	}
}

init {
	byte i = 0;
	atomic {
#ifdef FAILFAST
		failFast = FAILFAST;
#else
		if :: failFast = false :: failFast = true fi;
#endif
		do
		:: i < N ->
			if
			:: kind[i] = 0
			:: kind[i] = 1; nAbsent++
			fi;
			i++
		:: else -> break
		od
	};
	run mainp()
}
