package vlib

import (
	"bytes"
	"context"
	"errors"
	"io"
	"sync"

	"github.com/buchgr/bazel-remote/v2/cache"
)

// FakeProxy is a scriptable in-memory cache.Proxy. Objects hold bytes in the
// on-disk format of the storage mode under test. All answers are synchronous
// and deterministic.
type FakeProxy struct {
	mu      sync.Mutex
	Objects map[string]*FakeObject // key: "<kind>/<hash>"
	Puts    []FakePut
	Calls   []string
	// Faults by key for the next Get/Contains (consumed when used unless Sticky).
	GetFault      map[string]*GetFault
	ContainsFault map[string]*ContainsFault
	Opened        int
	Closed        int
	DoubleClosed  int
	// StepFn, if set, is called before every backend call and stream read
	// (scheduling point for managed threads).
	StepFn func(op, detail string)
}

type FakeObject struct {
	Data        []byte
	LogicalSize int64
}

type FakePut struct {
	Kind        cache.EntryKind
	Hash        string
	LogicalSize int64
	SizeOnDisk  int64
	Data        []byte
	ReadErr     error
	Closed      bool
}

// GetFault describes how a backend Get deviates from the default answer.
type GetFault struct {
	Err         error // returned instead of a stream
	NotFound    bool
	CutAt       int   // deliver only this many bytes (-1: all)
	CutErr      error // error returned after CutAt bytes (nil: clean EOF)
	SizeAnswer  *int64
	NilReader   bool
	Sticky      bool
	ChunkSize   int // max bytes per Read (0: unlimited)
	CancelAfter func()
}

type ContainsFault struct {
	Answer bool
	Size   int64
	Sticky bool
}

func NewFakeProxy() *FakeProxy {
	return &FakeProxy{Objects: map[string]*FakeObject{}, GetFault: map[string]*GetFault{}, ContainsFault: map[string]*ContainsFault{}}
}

func pkey(kind cache.EntryKind, hash string) string { return kind.String() + "/" + hash }

func (p *FakeProxy) step(op, detail string) {
	if p.StepFn != nil {
		p.StepFn(op, detail)
	}
}

// Set stores an object.
func (p *FakeProxy) Set(kind cache.EntryKind, hash string, data []byte, logical int64) {
	p.mu.Lock()
	p.Objects[pkey(kind, hash)] = &FakeObject{Data: data, LogicalSize: logical}
	p.mu.Unlock()
}

// Delete makes the backend forget an object.
func (p *FakeProxy) Delete(kind cache.EntryKind, hash string) {
	p.mu.Lock()
	defer p.mu.Unlock()
	delete(p.Objects, pkey(kind, hash))
}

func (p *FakeProxy) Put(ctx context.Context, kind cache.EntryKind, hash string, logicalSize int64, sizeOnDisk int64, rc io.ReadCloser) {
	p.step("proxy.put", hash[:6])
	data, err := io.ReadAll(rc)
	cerr := rc.Close()
	p.mu.Lock()
	p.Calls = append(p.Calls, "put "+pkey(kind, hash)[:10])
	p.Puts = append(p.Puts, FakePut{Kind: kind, Hash: hash, LogicalSize: logicalSize, SizeOnDisk: sizeOnDisk, Data: data, ReadErr: err, Closed: cerr == nil})
	if err == nil {
		p.Objects[pkey(kind, hash)] = &FakeObject{Data: data, LogicalSize: logicalSize}
	}
	p.mu.Unlock()
}

type fakeStream struct {
	p      *FakeProxy
	r      *bytes.Reader
	cutErr error
	chunk  int
	closed bool
	after  func()
}

func (s *fakeStream) Read(b []byte) (int, error) {
	s.p.step("proxy.read", "")
	if s.chunk > 0 && len(b) > s.chunk {
		b = b[:s.chunk]
	}
	n, err := s.r.Read(b)
	if err == io.EOF {
		if s.after != nil {
			s.after()
			s.after = nil
		}
		if s.cutErr != nil {
			return n, s.cutErr
		}
	}
	return n, err
}

func (s *fakeStream) Close() error {
	s.p.mu.Lock()
	if s.closed {
		s.p.DoubleClosed++
	} else {
		s.p.Closed++
	}
	s.closed = true
	s.p.mu.Unlock()
	return nil
}

func (p *FakeProxy) Get(ctx context.Context, kind cache.EntryKind, hash string, size int64) (io.ReadCloser, int64, error) {
	p.step("proxy.get", hash[:6])
	k := pkey(kind, hash)
	p.mu.Lock()
	defer p.mu.Unlock()
	p.Calls = append(p.Calls, "get "+k[:10])
	f := p.GetFault[k]
	if f != nil && !f.Sticky {
		delete(p.GetFault, k)
	}
	if f != nil && f.Err != nil {
		return nil, -1, f.Err
	}
	o := p.Objects[k]
	if o == nil || (f != nil && f.NotFound) {
		return nil, -1, nil
	}
	if f != nil && f.NilReader {
		return nil, o.LogicalSize, nil
	}
	data := o.Data
	sz := o.LogicalSize
	st := &fakeStream{p: p}
	if f != nil {
		if f.CutAt >= 0 && f.CutAt < len(data) {
			data = data[:f.CutAt]
			st.cutErr = f.CutErr
		}
		if f.SizeAnswer != nil {
			sz = *f.SizeAnswer
		}
		st.chunk = f.ChunkSize
		st.after = f.CancelAfter
	}
	st.r = bytes.NewReader(data)
	p.Opened++
	return st, sz, nil
}

func (p *FakeProxy) Contains(ctx context.Context, kind cache.EntryKind, hash string, size int64) (bool, int64) {
	p.step("proxy.contains", hash[:6])
	k := pkey(kind, hash)
	p.mu.Lock()
	defer p.mu.Unlock()
	p.Calls = append(p.Calls, "contains "+k[:10])
	if f := p.ContainsFault[k]; f != nil {
		if !f.Sticky {
			delete(p.ContainsFault, k)
		}
		return f.Answer, f.Size
	}
	o := p.Objects[k]
	if o == nil {
		return false, -1
	}
	return true, o.LogicalSize
}

// ErrBackend is the generic injected backend failure.
var ErrBackend = errors.New("injected backend failure")

// Snapshot returns counters (opened, closed, double closed) and a copy of the call log.
func (p *FakeProxy) Snapshot() (int, int, int, []string) {
	p.mu.Lock()
	defer p.mu.Unlock()
	return p.Opened, p.Closed, p.DoubleClosed, append([]string(nil), p.Calls...)
}

// PutsCopy returns the uploads received so far.
func (p *FakeProxy) PutsCopy() []FakePut {
	p.mu.Lock()
	defer p.mu.Unlock()
	return append([]FakePut(nil), p.Puts...)
}
