// Package vlib holds the parts of the verification harness shared by all
// drivers: result reporting, grid enumeration, blob generators, scratch
// directories, an independent implementation of the v2 CAS file format and a
// scriptable fake proxy backend. It is injected into the repository module by
// overlay (import path .../verifdrv/vlib) and must not import cache/disk.
package vlib

import (
	"crypto/sha256"
	"encoding/hex"
	"encoding/json"
	"fmt"
	"os"
	"sort"
	"strconv"
	"strings"
	"sync"
	"time"
)

// Violation is one property violation found by a driver.
type Violation struct {
	// Key classifies the violation (stable across runs); known findings
	// are matched against it.
	Key  string `json:"key"`
	Desc string `json:"desc"`
	// Replay is whatever is needed to reproduce: cell, schedule, history.
	Replay interface{} `json:"replay,omitempty"`
}

// Report is what a driver process hands back to ./check.
type Report struct {
	mu sync.Mutex

	Property     string                 `json:"property"`
	Part         string                 `json:"part"`
	Evaluations  int64                  `json:"evaluations"`
	States       int64                  `json:"states"`
	Transitions  int64                  `json:"transitions"`
	TracesValid  int64                  `json:"traces_validated_against_impl"`
	Exhaustive   bool                   `json:"exhaustive"`
	Caps         []string               `json:"caps,omitempty"`
	Distinct     []string               `json:"distinct_keys"`
	Outcomes     map[string]int64       `json:"outcomes"`
	Samples      []interface{}          `json:"samples"`
	Violations   []Violation            `json:"violations"`
	Broken       []string               `json:"broken,omitempty"`
	Skipped      map[string]int64       `json:"skipped,omitempty"`
	Extra        map[string]interface{} `json:"extra,omitempty"`
	Assumptions  []string               `json:"assumptions,omitempty"`
	Rule         string                 `json:"rule,omitempty"`
	WallS        float64                `json:"wall_s"`
	distinctSet  map[string]struct{}
	start        time.Time
	maxSamples   int
	maxViolation int
}

// NewReport creates a report for one driver run.
func NewReport(property, part string) *Report {
	return &Report{Property: property, Part: part, Exhaustive: true,
		Outcomes: map[string]int64{}, Skipped: map[string]int64{}, Extra: map[string]interface{}{},
		distinctSet: map[string]struct{}{}, start: time.Now(), maxSamples: 6, maxViolation: 40}
}

func shortHash(s string) string {
	h := sha256.Sum256([]byte(s))
	return hex.EncodeToString(h[:6])
}

// Eval counts one evaluated case.
func (r *Report) Eval() { r.mu.Lock(); r.Evaluations++; r.mu.Unlock() }

// Nontrivial records a distinct non-trivial case key.
func (r *Report) Nontrivial(key string) {
	r.mu.Lock()
	r.distinctSet[shortHash(key)] = struct{}{}
	r.mu.Unlock()
}

// Outcome counts an observed outcome class.
func (r *Report) Outcome(o string) { r.mu.Lock(); r.Outcomes[o]++; r.mu.Unlock() }

// Skip counts a cell that was not applicable.
func (r *Report) Skip(why string) { r.mu.Lock(); r.Skipped[why]++; r.mu.Unlock() }

// Sample keeps a few written-out cases.
func (r *Report) Sample(s interface{}) {
	r.mu.Lock()
	if len(r.Samples) < r.maxSamples {
		r.Samples = append(r.Samples, s)
	}
	r.mu.Unlock()
}

// Violate records a violation.
func (r *Report) Violate(key, desc string, replay interface{}) {
	r.mu.Lock()
	defer r.mu.Unlock()
	for _, v := range r.Violations {
		if v.Key == key {
			return // one witness per class
		}
	}
	if len(r.Violations) < r.maxViolation {
		r.Violations = append(r.Violations, Violation{Key: key, Desc: desc, Replay: replay})
	}
}

// NumViolations returns the number of distinct violation classes so far.
func (r *Report) NumViolations() int { r.mu.Lock(); defer r.mu.Unlock(); return len(r.Violations) }

// BrokenHarness records that the driver itself could not do its job
// (vacuity guard, replay divergence); never a violation.
func (r *Report) BrokenHarness(format string, a ...interface{}) {
	r.mu.Lock()
	if len(r.Broken) < 20 {
		r.Broken = append(r.Broken, fmt.Sprintf(format, a...))
	}
	r.mu.Unlock()
}

// Cap records that an internal cap cut the enumeration short.
func (r *Report) Cap(what string) {
	r.mu.Lock()
	r.Exhaustive = false
	r.Caps = append(r.Caps, what)
	r.mu.Unlock()
}

// Write stores the report where ./check expects it ($VERIF_OUT).
func (r *Report) Write() {
	r.mu.Lock()
	defer r.mu.Unlock()
	r.Distinct = r.Distinct[:0]
	for k := range r.distinctSet {
		r.Distinct = append(r.Distinct, k)
	}
	sort.Strings(r.Distinct)
	r.WallS = time.Since(r.start).Seconds()
	out := os.Getenv("VERIF_OUT")
	if out == "" {
		out = "/dev/stdout"
	}
	b, err := json.Marshal(r)
	if err != nil {
		fmt.Fprintln(os.Stderr, "report marshal:", err)
		os.Exit(3)
	}
	if err := os.WriteFile(out, b, 0o644); err != nil {
		fmt.Fprintln(os.Stderr, "report write:", err)
		os.Exit(3)
	}
}

// Tier returns "quick" or "thorough".
func Tier() string {
	if os.Getenv("VERIF_TIER") == "thorough" {
		return "thorough"
	}
	return "quick"
}

// Thorough reports whether the thorough tier runs.
func Thorough() bool { return Tier() == "thorough" }

// Seed returns VERIF_SEED (default 1). It only selects blob contents.
func Seed() int64 {
	v, err := strconv.ParseInt(os.Getenv("VERIF_SEED"), 10, 64)
	if err != nil {
		return 1
	}
	return v
}

// Shard returns (index, count) from VERIF_SHARD="i/n".
func Shard() (int, int) {
	p := strings.Split(os.Getenv("VERIF_SHARD"), "/")
	if len(p) != 2 {
		return 0, 1
	}
	i, _ := strconv.Atoi(p[0])
	n, _ := strconv.Atoi(p[1])
	if n < 1 {
		return 0, 1
	}
	return i, n
}

// Deadline returns the soft deadline for this process (VERIF_BUDGET_S).
func Deadline() time.Time {
	s, err := strconv.ParseFloat(os.Getenv("VERIF_BUDGET_S"), 64)
	if err != nil || s <= 0 {
		s = 3600
	}
	return time.Now().Add(time.Duration(s * float64(time.Second)))
}

// Param returns VERIF_PARAM_<name> or def.
func Param(name, def string) string {
	if v := os.Getenv("VERIF_PARAM_" + name); v != "" {
		return v
	}
	return def
}
