package vlib

import (
	"bytes"
	"crypto/sha256"
	"encoding/binary"
	"encoding/hex"
	"fmt"
	"io"
	"log"
	"os"
	"path/filepath"

	"github.com/klauspost/compress/zstd"
)

// Bytes returns n deterministic bytes for (tag, VERIF_SEED). Compressible
// data is text-like with long repeats; otherwise it is hash output.
func Bytes(tag string, n int, compressible bool) []byte {
	out := make([]byte, 0, n+64)
	seed := fmt.Sprintf("%s/%d", tag, Seed())
	if compressible {
		line := []byte(fmt.Sprintf("the quick brown fox %s jumps over the lazy dog\n", seed))
		ctr := 0
		for len(out) < n {
			out = append(out, line...)
			ctr++
			if ctr%7 == 0 {
				out = append(out, []byte(fmt.Sprintf("#%d\n", ctr))...)
			}
		}
		return out[:n]
	}
	var ctr uint64
	for len(out) < n {
		var b [8]byte
		binary.LittleEndian.PutUint64(b[:], ctr)
		h := sha256.Sum256(append([]byte(seed), b[:]...))
		out = append(out, h[:]...)
		ctr++
	}
	return out[:n]
}

// BytesFixed is Bytes with the seed pinned to 1 (golden files must not
// depend on VERIF_SEED).
func BytesFixed(tag string, n int, compressible bool) []byte {
	old := os.Getenv("VERIF_SEED")
	os.Setenv("VERIF_SEED", "1")
	defer os.Setenv("VERIF_SEED", old)
	return Bytes(tag, n, compressible)
}

// Zeros returns n zero bytes.
func Zeros(n int) []byte { return make([]byte, n) }

// Sha returns the hex SHA-256 of b.
func Sha(b []byte) string {
	s := sha256.Sum256(b)
	return hex.EncodeToString(s[:])
}

type silent struct{}

func (silent) Write(p []byte) (int, error) { return len(p), nil }

// SilentLogger discards everything.
func SilentLogger() *log.Logger { return log.New(silent{}, "", 0) }

var zdec, _ = zstd.NewReader(nil, zstd.WithDecoderConcurrency(1), zstd.WithDecoderMaxMemory(1<<31))
var zenc, _ = zstd.NewWriter(nil, zstd.WithEncoderConcurrency(1))

// ZstdDecodeAll decodes a complete zstd stream (any number of frames,
// skippable frames included) with the pure Go decoder.
func ZstdDecodeAll(b []byte) ([]byte, error) {
	r, err := zstd.NewReader(bytes.NewReader(b), zstd.WithDecoderConcurrency(1), zstd.WithDecoderMaxMemory(1<<31))
	if err != nil {
		return nil, err
	}
	defer r.Close()
	return io.ReadAll(r)
}

// ZstdDecodeBoth decodes with the pure Go decoder and with libzstd and
// requires both to succeed with the same output.
func ZstdDecodeBoth(b []byte) ([]byte, error) {
	g, err := ZstdDecodeAll(b)
	if err != nil {
		return g, fmt.Errorf("klauspost decoder: %w", err)
	}
	c, err := ZstdDecodeAllC(b)
	if err != nil {
		return g, fmt.Errorf("libzstd decoder: %w", err)
	}
	if !bytes.Equal(g, c) {
		return g, fmt.Errorf("decoders disagree: %d vs %d bytes", len(g), len(c))
	}
	return g, nil
}

// ZstdEncode compresses b into one frame with the pure Go encoder.
func ZstdEncode(b []byte) []byte { return zenc.EncodeAll(b, nil) }

// Scratch returns a fresh directory under $VERIF_SCRATCH.
func Scratch(name string) string {
	base := os.Getenv("VERIF_SCRATCH")
	if base == "" {
		base = filepath.Join("/dev/shm", fmt.Sprintf("verif-adhoc.%d", os.Getpid()))
	}
	d := filepath.Join(base, name)
	_ = os.RemoveAll(d)
	if err := os.MkdirAll(d, 0o755); err != nil {
		panic(err)
	}
	return d
}
