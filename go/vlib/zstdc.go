//go:build cgo

package vlib

import (
	"bytes"
	"io"

	"github.com/valyala/gozstd"
)

// HaveLibzstd reports whether the libzstd (cgo) decoder is linked in.
const HaveLibzstd = true

// ZstdDecodeAllC decodes a complete zstd stream with libzstd (streaming
// API: handles concatenated and skippable frames).
func ZstdDecodeAllC(b []byte) ([]byte, error) {
	r := gozstd.NewReader(bytes.NewReader(b))
	defer r.Release()
	return io.ReadAll(r)
}

// ZstdEncodeC compresses with libzstd at the given level.
func ZstdEncodeC(b []byte, level int) []byte { return gozstd.CompressLevel(nil, b, level) }
