package vlib

// Independent implementation of the published v2 CAS blob format, written
// from the format description (README / header comment), not from the code:
//
//	u32le magic = 0x184D2A50            zstd skippable frame
//	u32le frame size = bytes that follow up to the end of the header
//	i64le logical (uncompressed) size
//	u8    compression: 0 identity, 1 zstandard
//	u32le chunk size
//	i64le number of offsets N (= chunks + 1)
//	i64le offsets[N]                    file offsets of the chunks; last = file size
//	chunk data: each chunk an independent zstd frame of <= chunk size bytes
import (
	"bytes"
	"encoding/binary"
	"fmt"

	"github.com/klauspost/compress/zstd"
)

// CasHeader is the parsed header of a v2 CAS file.
type CasHeader struct {
	LogicalSize int64
	Compression uint8
	ChunkSize   uint32
	Offsets     []int64
}

// ChunkEncoder compresses one chunk into one zstd frame.
type ChunkEncoder func([]byte) []byte

// EncodeCasBlobWith lays out data as a v2 CAS file.
func EncodeCasBlobWith(data []byte, chunkSize int, compress bool, enc ChunkEncoder) []byte {
	if len(data) == 0 {
		panic("empty blobs are never stored")
	}
	var chunks [][]byte
	if !compress {
		chunks = [][]byte{data}
	} else {
		for off := 0; off < len(data); off += chunkSize {
			end := off + chunkSize
			if end > len(data) {
				end = len(data)
			}
			chunks = append(chunks, enc(data[off:end]))
		}
	}
	n := len(chunks) + 1
	hdrLen := 4 + 4 + 8 + 1 + 4 + 8 + 8*n
	var b bytes.Buffer
	le := binary.LittleEndian
	_ = binary.Write(&b, le, uint32(0x184D2A50))
	_ = binary.Write(&b, le, uint32(hdrLen-8))
	_ = binary.Write(&b, le, int64(len(data)))
	c := uint8(0)
	if compress {
		c = 1
	}
	_ = binary.Write(&b, le, c)
	_ = binary.Write(&b, le, uint32(chunkSize))
	_ = binary.Write(&b, le, int64(n))
	off := int64(hdrLen)
	for _, ch := range chunks {
		_ = binary.Write(&b, le, off)
		off += int64(len(ch))
	}
	_ = binary.Write(&b, le, off)
	for _, ch := range chunks {
		b.Write(ch)
	}
	return b.Bytes()
}

// EncodeCasBlob uses the pure Go encoder at its default level.
func EncodeCasBlob(data []byte, chunkSize int, compress bool) []byte {
	return EncodeCasBlobWith(data, chunkSize, compress, ZstdEncode)
}

// ZstdEncoderLevel returns a chunk encoder for a klauspost level.
func ZstdEncoderLevel(level zstd.EncoderLevel) ChunkEncoder {
	e, err := zstd.NewWriter(nil, zstd.WithEncoderLevel(level), zstd.WithEncoderConcurrency(1))
	if err != nil {
		panic(err)
	}
	return func(b []byte) []byte { return e.EncodeAll(b, nil) }
}

// ZstdEncoderStream compresses each chunk with a STREAMING encoder (content
// size not pledged: the frame is not single-segment and declares the
// encoder's window size in its header), as another implementation writing
// the v2 format chunk by chunk through an io.Writer would.
func ZstdEncoderStream(opts ...zstd.EOption) ChunkEncoder {
	return func(b []byte) []byte {
		var out bytes.Buffer
		w, err := zstd.NewWriter(&out, append([]zstd.EOption{zstd.WithEncoderConcurrency(1)}, opts...)...)
		if err != nil {
			panic(err)
		}
		// several writes, so that the encoder cannot know the total in advance
		for off := 0; off < len(b); off += 100000 {
			end := off + 100000
			if end > len(b) {
				end = len(b)
			}
			if _, err := w.Write(b[off:end]); err != nil {
				panic(err)
			}
		}
		if err := w.Close(); err != nil {
			panic(err)
		}
		return out.Bytes()
	}
}

// ParseCasHeader parses and validates the header against the file length.
func ParseCasHeader(file []byte) (*CasHeader, error) {
	le := binary.LittleEndian
	if len(file) < 29+16 {
		return nil, fmt.Errorf("file of %d bytes is shorter than the smallest header", len(file))
	}
	if le.Uint32(file[0:]) != 0x184D2A50 {
		return nil, fmt.Errorf("bad magic %#x", le.Uint32(file[0:]))
	}
	frame := int64(le.Uint32(file[4:]))
	h := &CasHeader{LogicalSize: int64(le.Uint64(file[8:])), Compression: file[16], ChunkSize: le.Uint32(file[17:])}
	n := int64(le.Uint64(file[21:]))
	if n < 2 || n > int64(len(file))/8 {
		return nil, fmt.Errorf("implausible offset count %d", n)
	}
	if frame != 8+1+4+8+8*n {
		return nil, fmt.Errorf("skippable frame size %d does not match %d offsets", frame, n)
	}
	if int64(len(file)) < 29+8*n {
		return nil, fmt.Errorf("file too short for %d offsets", n)
	}
	for i := int64(0); i < n; i++ {
		h.Offsets = append(h.Offsets, int64(le.Uint64(file[29+8*i:])))
	}
	if h.Offsets[0] != 29+8*n {
		return nil, fmt.Errorf("first chunk offset %d, header ends at %d", h.Offsets[0], 29+8*n)
	}
	for i := 1; i < len(h.Offsets); i++ {
		if h.Offsets[i] <= h.Offsets[i-1] {
			return nil, fmt.Errorf("offsets not increasing at %d", i)
		}
	}
	if h.Offsets[n-1] != int64(len(file)) {
		return nil, fmt.Errorf("last offset %d != file size %d", h.Offsets[n-1], len(file))
	}
	if h.LogicalSize <= 0 {
		return nil, fmt.Errorf("logical size %d", h.LogicalSize)
	}
	if h.Compression > 1 {
		return nil, fmt.Errorf("unknown compression %d", h.Compression)
	}
	return h, nil
}

// DecodeCasBlob returns the logical bytes of a v2 CAS file, decoding every
// chunk independently with dec (nil: pure Go decoder).
func DecodeCasBlob(file []byte, dec func([]byte) ([]byte, error)) ([]byte, *CasHeader, error) {
	h, err := ParseCasHeader(file)
	if err != nil {
		return nil, nil, err
	}
	if dec == nil {
		dec = func(b []byte) ([]byte, error) { return zdec.DecodeAll(b, nil) }
	}
	if h.Compression == 0 {
		if len(h.Offsets) != 2 {
			return nil, h, fmt.Errorf("identity blob with %d chunks", len(h.Offsets)-1)
		}
		out := file[h.Offsets[0]:]
		if int64(len(out)) != h.LogicalSize {
			return nil, h, fmt.Errorf("identity payload %d bytes, header says %d", len(out), h.LogicalSize)
		}
		return out, h, nil
	}
	if h.ChunkSize == 0 {
		return nil, h, fmt.Errorf("chunk size 0")
	}
	wantChunks := (h.LogicalSize + int64(h.ChunkSize) - 1) / int64(h.ChunkSize)
	if int64(len(h.Offsets)-1) != wantChunks {
		return nil, h, fmt.Errorf("%d chunks for %d bytes with chunk size %d", len(h.Offsets)-1, h.LogicalSize, h.ChunkSize)
	}
	var out []byte
	for i := 0; i+1 < len(h.Offsets); i++ {
		raw, err := dec(file[h.Offsets[i]:h.Offsets[i+1]])
		if err != nil {
			return nil, h, fmt.Errorf("chunk %d: %w", i, err)
		}
		want := int64(h.ChunkSize)
		if i+2 == len(h.Offsets) {
			want = h.LogicalSize - int64(i)*int64(h.ChunkSize)
		}
		if int64(len(raw)) != want {
			return nil, h, fmt.Errorf("chunk %d decodes to %d bytes, expected %d", i, len(raw), want)
		}
		out = append(out, raw...)
	}
	return out, h, nil
}

// DecodeStored recovers the logical bytes from the form a cache stores /
// hands to a backend.
func DecodeStored(b []byte, casV2 bool) ([]byte, error) {
	if !casV2 {
		return b, nil
	}
	out, _, err := DecodeCasBlob(b, nil)
	return out, err
}
