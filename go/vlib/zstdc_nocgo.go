//go:build !cgo

package vlib

const HaveLibzstd = false

func ZstdDecodeAllC(b []byte) ([]byte, error) { return ZstdDecodeAll(b) }
func ZstdEncodeC(b []byte, level int) []byte   { return ZstdEncode(b) }
