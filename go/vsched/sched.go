// Package vsched is the controlled cooperative scheduler (engine E1) of the
// verification harness. Exactly one managed thread runs at a time; control
// changes hands only at Step/Await/Lock points. It is injected into the
// repository module by overlay and never committed there.
package vsched

import (
	"fmt"
	"runtime"
	"strings"
	"sync"
	"sync/atomic"

	"github.com/buchgr/bazel-remote/v2/utils/verifhook"
)

// Point is one scheduling decision with more than one enabled thread.
type Point struct {
	Enabled        []int    `json:"enabled"`
	Ops            []string `json:"ops"`
	Choice         int      `json:"choice"`
	RunningEnabled bool     `json:"running_enabled"`
}

type thread struct {
	id      int
	name    string
	wake    chan int
	op      string
	detail  string
	ready   func() bool
	lock    *Mutex
	done    bool
	daemon  bool
	steps   int
	started bool
	// set while the session's Observer runs on this thread
	inObserver bool
}

const (
	verdictRun  = 0
	verdictExit = 1
)

// Session is one controlled execution.
type Session struct {
	mu       sync.Mutex
	threads  []*thread
	byGID    map[int64]*thread
	running  *thread
	prefix   []int
	pos      int
	Points   []Point
	Trace    []string // every step taken: "T1:os.open path"
	finished chan struct{}
	finOnce  sync.Once

	Deadlock   bool
	Divergence string

	adoptOp   string
	adoptName string
	adopted   chan struct{}

	// Prefer names a thread that is chosen whenever it is enabled, beyond
	// the replayed prefix (e.g. an eager background remover).
	Prefer string

	// AtomicPoints makes vatomic operations scheduling points.
	AtomicPoints bool
	// LabelOnly lists hook names that are recorded but never yield
	// (they sit next to a shim point).
	LabelOnly map[string]bool
	// Observer, if set, is called (on the stepping thread, with the
	// session unlocked) before every point of a managed thread.
	Observer func(thread string, op, detail string)
	// Resumed, if set, is called on the stepping thread right after it has
	// been scheduled, immediately before it performs the operation.
	Resumed func(thread string, op, detail string)

	closed bool
}

var cur atomic.Pointer[Session]

func init() {
	verifhook.StepFn = Step
	verifhook.AwaitFn = Await
}

func gid() int64 {
	var buf [64]byte
	n := runtime.Stack(buf[:], false)
	// "goroutine 123 [running]:"
	s := buf[10:n]
	var id int64
	for _, c := range s {
		if c < '0' || c > '9' {
			break
		}
		id = id*10 + int64(c-'0')
	}
	return id
}

// New creates a session that replays prefix and then takes choice 0.
func New(prefix []int) *Session {
	s := &Session{
		byGID:    map[int64]*thread{},
		prefix:   append([]int(nil), prefix...),
		finished: make(chan struct{}),
		LabelOnly: map[string]bool{
			"get.afterlookup": true, "get.beforeremove": true,
			"put.beforecommit": true, "get.proxy.beforecommit": true,
			"evict.unlink": true, "fm.beforeselect": true,
		},
	}
	return s
}

// Install makes s the session seen by hooks and shims.
func (s *Session) Install() { cur.Store(s) }

// Uninstall detaches the session; all points pass through afterwards.
func Uninstall() { cur.Store(nil) }

func (s *Session) me() *thread {
	g := gid()
	s.mu.Lock()
	t := s.byGID[g]
	s.mu.Unlock()
	return t
}

// Spawn starts fn as a managed thread, parked at its "start" point.
func (s *Session) Spawn(name string, fn func()) {
	s.spawn(name, false, fn)
}

func (s *Session) spawn(name string, daemon bool, fn func()) {
	t := &thread{id: len(s.threads), name: name, wake: make(chan int, 1), op: "start", daemon: daemon}
	s.mu.Lock()
	s.threads = append(s.threads, t)
	s.mu.Unlock()
	reg := make(chan struct{})
	go func() {
		s.mu.Lock()
		s.byGID[gid()] = t
		s.mu.Unlock()
		close(reg)
		if v := <-t.wake; v == verdictExit {
			return
		}
		fn()
		s.finish(t)
	}()
	<-reg
}

// AdoptNext arranges that the next unmanaged goroutine calling
// Await(op, ...) becomes a managed daemon thread named name. The returned
// channel is closed once it is parked.
func (s *Session) AdoptNext(op, name string) <-chan struct{} {
	s.mu.Lock()
	s.adoptOp, s.adoptName = op, name
	s.adopted = make(chan struct{})
	ch := s.adopted
	s.mu.Unlock()
	return ch
}

// Run starts scheduling and blocks until the execution is complete (all
// non-daemon threads finished and no daemon enabled) or deadlocked.
func (s *Session) Run() {
	s.mu.Lock()
	next := s.pick(nil)
	if next == nil {
		s.mu.Unlock()
		return
	}
	s.running = next
	s.mu.Unlock()
	next.wake <- verdictRun
	<-s.finished
}

// Close releases parked daemon threads (they exit their goroutine).
func (s *Session) Close() {
	s.mu.Lock()
	s.closed = true
	var park []*thread
	for _, t := range s.threads {
		if !t.done {
			park = append(park, t)
			t.done = true
		}
	}
	s.mu.Unlock()
	for _, t := range park {
		select {
		case t.wake <- verdictExit:
		default:
		}
	}
	if cur.Load() == s {
		cur.Store(nil)
	}
}

func (t *thread) enabled() bool {
	if t.done {
		return false
	}
	if t.lock != nil {
		return t.lock.owner == nil
	}
	if t.ready != nil {
		return t.ready()
	}
	return true
}

// pick chooses the next thread to run; s.mu held. from is the thread that
// was running (nil at start).
func (s *Session) pick(from *thread) *thread {
	var en []*thread
	runningEnabled := false
	if from != nil && from.enabled() {
		en = append(en, from)
		runningEnabled = true
	}
	for _, t := range s.threads {
		if t != from && t.enabled() {
			en = append(en, t)
		}
	}
	if len(en) == 0 {
		return nil
	}
	choice := 0
	if len(en) > 1 {
		if s.pos < len(s.prefix) {
			choice = s.prefix[s.pos]
			if choice < 0 || choice >= len(en) {
				s.Divergence = fmt.Sprintf("choice %d out of range (%d enabled) at point %d", choice, len(en), s.pos)
				choice = 0
			}
		} else if s.Prefer != "" {
			for i, t := range en {
				if t.name == s.Prefer {
					choice = i
				}
			}
		}
		s.pos++
		p := Point{Choice: choice, RunningEnabled: runningEnabled}
		for _, t := range en {
			p.Enabled = append(p.Enabled, t.id)
			p.Ops = append(p.Ops, t.name+":"+t.op+" "+t.detail)
		}
		s.Points = append(s.Points, p)
	}
	return en[choice]
}

func (s *Session) complete() {
	s.finOnce.Do(func() { close(s.finished) })
}

// yield is called by thread t with its pending op set; returns when t is
// scheduled to perform it.
func (s *Session) yield(t *thread) {
	s.mu.Lock()
	next := s.pick(t)
	if next == t {
		s.record(t)
		s.mu.Unlock()
		return
	}
	if next == nil {
		// nothing enabled, including t itself.
		s.noneEnabled()
		s.mu.Unlock()
	} else {
		s.running = next
		s.mu.Unlock()
		next.wake <- verdictRun
	}
	if v := <-t.wake; v == verdictExit {
		runtime.Goexit()
	}
	s.mu.Lock()
	s.record(t)
	s.mu.Unlock()
}

func (s *Session) record(t *thread) {
	t.steps++
	if len(s.Trace) < 4000 {
		s.Trace = append(s.Trace, t.name+":"+t.op+" "+t.detail)
	}
}

// noneEnabled: s.mu held.
func (s *Session) noneEnabled() {
	for _, t := range s.threads {
		if !t.done && !t.daemon {
			s.Deadlock = true
		}
	}
	s.complete()
}

func (s *Session) finish(t *thread) {
	s.mu.Lock()
	t.done = true
	next := s.pick(nil)
	if next == nil {
		s.noneEnabled()
		s.mu.Unlock()
		return
	}
	s.running = next
	s.mu.Unlock()
	next.wake <- verdictRun
}

// normDetail replaces the random suffix of a cache file name
// (<hash>[-<size>]-<random>[.v1]) by "R": schedules are compared and replayed
// by their traces, which must not depend on the temp-name generator.
func normDetail(d string) string {
	if len(d) < 66 || d[64] != '-' {
		return d
	}
	for i := 0; i < 64; i++ {
		c := d[i]
		if !(c >= '0' && c <= '9' || c >= 'a' && c <= 'f') {
			return d
		}
	}
	rest := d[65:]
	suffix := ""
	if strings.HasSuffix(rest, ".v1") {
		rest, suffix = rest[:len(rest)-3], ".v1"
	}
	if i := strings.LastIndexByte(rest, '-'); i >= 0 {
		return d[:65] + rest[:i+1] + "R" + suffix
	}
	return d[:65] + "R" + suffix
}

func (s *Session) step(t *thread, op, detail string, ready func() bool, lock *Mutex) {
	detail = normDetail(detail)
	if t.inObserver {
		return // harness code running inside the observer is not scheduled
	}
	if obs := s.Observer; obs != nil {
		t.inObserver = true
		obs(t.name, op, detail)
		t.inObserver = false
	}
	s.mu.Lock()
	t.op, t.detail, t.ready, t.lock = op, detail, ready, lock
	s.mu.Unlock()
	s.yield(t)
	s.mu.Lock()
	t.ready, t.lock = nil, nil
	s.mu.Unlock()
	if r := s.Resumed; r != nil {
		// the thread is about to perform the operation: nothing else runs
		// between this callback and the operation
		t.inObserver = true
		r(t.name, op, detail)
		t.inObserver = false
	}
}

// Step is a scheduling point for the calling goroutine if it is managed.
func Step(op, detail string) {
	detail = normDetail(detail)
	s := cur.Load()
	if s == nil {
		return
	}
	t := s.me()
	if t == nil {
		return
	}
	if s.LabelOnly[op] {
		if obs := s.Observer; obs != nil && !t.inObserver {
			t.inObserver = true
			obs(t.name, op, detail)
			t.inObserver = false
		}
		s.mu.Lock()
		if len(s.Trace) < 4000 {
			s.Trace = append(s.Trace, t.name+":("+op+" "+detail+")")
		}
		s.mu.Unlock()
		return
	}
	s.step(t, op, detail, nil, nil)
}

// Scheduled reports whether the calling goroutine is a thread of the installed session.
func Scheduled() bool {
	s := cur.Load()
	return s != nil && s.me() != nil
}

// Await is a scheduling point at which the caller is enabled iff ready().
func Await(op string, ready func() bool) {
	s := cur.Load()
	if s == nil {
		checkStop(op)
		return
	}
	t := s.me()
	if t == nil {
		awaitCalls.Add(1)
		s.mu.Lock()
		if s.adoptOp == op && !s.closed {
			t = &thread{id: len(s.threads), name: s.adoptName, wake: make(chan int, 1), daemon: true}
			t.op, t.ready = op, ready
			s.threads = append(s.threads, t)
			s.byGID[gid()] = t
			s.adoptOp = ""
			ch := s.adopted
			s.mu.Unlock()
			close(ch)
			// park until first scheduled
			if v := <-t.wake; v == verdictExit {
				runtime.Goexit()
			}
			s.mu.Lock()
			s.record(t)
			t.ready = nil
			s.mu.Unlock()
			return
		}
		s.mu.Unlock()
		return
	}
	s.step(t, op, "", ready, nil)
}

// AtomicStep is called by the vatomic shim.
func AtomicStep(op string) {
	s := cur.Load()
	if s == nil || !s.AtomicPoints {
		return
	}
	t := s.me()
	if t == nil {
		return
	}
	s.step(t, op, "", nil, nil)
}

// Mutex is the scheduler-aware replacement for sync.Mutex.
type Mutex struct {
	mu    sync.Mutex
	owner *thread
}

func (m *Mutex) Lock() {
	if s := cur.Load(); s != nil {
		if t := s.me(); t != nil {
			s.step(t, "lock", "", nil, m)
			s.mu.Lock()
			m.owner = t
			s.mu.Unlock()
			m.mu.Lock()
			return
		}
	}
	m.mu.Lock()
}

func (m *Mutex) Unlock() {
	if s := cur.Load(); s != nil {
		if t := s.me(); t != nil {
			s.mu.Lock()
			if m.owner == t {
				m.owner = nil
			}
			s.mu.Unlock()
		}
	}
	m.mu.Unlock()
}

func (m *Mutex) TryLock() bool {
	if !m.mu.TryLock() {
		return false
	}
	if s := cur.Load(); s != nil {
		if t := s.me(); t != nil {
			s.mu.Lock()
			m.owner = t
			s.mu.Unlock()
		}
	}
	return true
}

// Preemptions returns the number of preemptive switches among the first n
// points (n<0: all).
func Preemptions(points []Point, n int) int {
	if n < 0 || n > len(points) {
		n = len(points)
	}
	c := 0
	for _, p := range points[:n] {
		if p.RunningEnabled && p.Choice != 0 {
			c++
		}
	}
	return c
}

// Choices extracts the choice list of an execution.
func Choices(points []Point) []int {
	out := make([]int, len(points))
	for i, p := range points {
		out[i] = p.Choice
	}
	return out
}

// FormatTrace renders a trace compactly.
func FormatTrace(tr []string) string { return strings.Join(tr, " | ") }

type stopReq struct {
	op   string
	done chan struct{}
}

var stopNext atomic.Pointer[stopReq]

// StopNextAwait arranges that the next unmanaged goroutine calling
// Await(op, ...) exits. Used to end a cache's background remover.
func StopNextAwait(op string) <-chan struct{} {
	r := &stopReq{op: op, done: make(chan struct{})}
	stopNext.Store(r)
	return r.done
}

// CancelStop withdraws a pending StopNextAwait.
func CancelStop() { stopNext.Store(nil) }

var awaitCalls atomic.Int64

// AwaitCalls counts Await calls made by unmanaged goroutines (the
// background remover announces each receive with one).
func AwaitCalls() int64 { return awaitCalls.Load() }

func checkStop(op string) {
	awaitCalls.Add(1)
	if r := stopNext.Load(); r != nil && r.op == op && stopNext.CompareAndSwap(r, nil) {
		close(r.done)
		runtime.Goexit()
	}
}

// VfOwned reports whether a managed thread currently holds m.
func (m *Mutex) VfOwned() bool {
	s := cur.Load()
	if s == nil {
		return false
	}
	s.mu.Lock()
	defer s.mu.Unlock()
	return m.owner != nil
}

// ---- skeleton fast path -------------------------------------------------
//
// disk.New creates 768 sub-directories and lists every one of them; on a
// directory tree the harness has already populated and knows to be empty
// outside its "hot" sub-directories this costs ~10 ms of syscalls per
// instance. SetFastSkeleton lets the os shim answer those calls from
// knowledge: MkdirAll of an existing skeleton directory is a no-op, ReadDir
// of a non-hot leaf directory returns no entries. Drivers that use it verify
// the premise with a full directory walk at every checked step.

type skeleton struct {
	root string
	hot  map[string]bool
}

var fastSkel atomic.Pointer[skeleton]

// SetFastSkeleton enables the fast path for the tree rooted at root (which
// must already hold the full skeleton); hot lists relative leaf dirs like
// "cas.v2/ab" that must always be really listed. root=="" disables.
func SetFastSkeleton(root string, hot []string) {
	if root == "" {
		fastSkel.Store(nil)
		return
	}
	sk := &skeleton{root: strings.TrimRight(root, "/"), hot: map[string]bool{}}
	for _, h := range hot {
		sk.hot[h] = true
	}
	fastSkel.Store(sk)
}

func (sk *skeleton) rel(path string) (string, bool) {
	if !strings.HasPrefix(path, sk.root) {
		return "", false
	}
	r := path[len(sk.root):]
	if r == "" {
		return "", true
	}
	if r[0] != '/' {
		return "", false
	}
	return r[1:], true
}

// openFault: environment deviation installed by a driver: given the name and
// flags of an os.OpenFile call in rewritten repository code it returns the
// error the call is to fail with (nil: the call proceeds).
var openFault atomic.Pointer[func(name string, flag int) error]

// SetOpenFault installs (nil: removes) the OpenFile fault.
func SetOpenFault(f func(name string, flag int) error) {
	if f == nil {
		openFault.Store(nil)
		return
	}
	openFault.Store(&f)
}

// OpenFault is called by the os shim before every OpenFile.
func OpenFault(name string, flag int) error {
	if f := openFault.Load(); f != nil {
		return (*f)(name, flag)
	}
	return nil
}

// FastDir reports that path is an existing skeleton directory.
func FastDir(path string) bool {
	sk := fastSkel.Load()
	if sk == nil {
		return false
	}
	r, ok := sk.rel(path)
	if !ok {
		return false
	}
	if r == "" {
		return true
	}
	// "<ks>.v2" or "<ks>.v2/xx"
	parts := strings.Split(r, "/")
	if len(parts) > 2 || !(parts[0] == "cas.v2" || parts[0] == "ac.v2" || parts[0] == "raw.v2") {
		return false
	}
	return len(parts) == 1 || len(parts[1]) == 2
}

// FastEmpty reports that name is a non-hot leaf directory of the skeleton.
func FastEmpty(name string) bool {
	sk := fastSkel.Load()
	if sk == nil {
		return false
	}
	r, ok := sk.rel(name)
	if !ok {
		return false
	}
	parts := strings.Split(r, "/")
	if len(parts) != 2 || len(parts[1]) != 2 || !(parts[0] == "cas.v2" || parts[0] == "ac.v2" || parts[0] == "raw.v2") {
		return false
	}
	return !sk.hot[r]
}
