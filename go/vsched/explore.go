package vsched

import (
	"fmt"
	"time"
)

// Execution is what one run of the system under a schedule produced.
type Execution struct {
	Points     []Point
	Trace      []string
	Deadlock   bool
	Divergence string
	// Outcome is a canonical rendering of what the operations observed
	// (used to count distinct outcomes).
	Outcome string
	// Violations found by the oracle on this execution (key, description).
	Violations [][2]string
}

// Explorer is a stateless depth-first explorer with a preemption bound.
type Explorer struct {
	Bound    int // max preemptions (<0: unbounded)
	Run      func(prefix []int) *Execution
	Shard    int
	NShards  int
	Deadline time.Time
	MaxExec  int64

	Executions   int64 // executions owned (checked) by this shard
	AllRuns      int64 // including shared prefix executions
	ByPreempt    map[int]int64
	Outcomes     map[string]int64
	MaxPoints    int
	ChoicePoints int64
	Capped       string
	Found        []Found
	StopAtFirst  bool
	counter      int64
	stop         bool
}

// Found is a violating execution.
type Found struct {
	Key, Desc   string
	Choices     []int
	Preemptions int
	Trace       []string
}

// Explore runs the whole search.
func (e *Explorer) Explore() {
	if e.NShards < 1 {
		e.NShards = 1
	}
	e.ByPreempt = map[int]int64{}
	e.Outcomes = map[string]int64{}
	e.explore(nil, 0, e.Shard == 0)
}

func (e *Explorer) explore(prefix []int, depth int, owned bool) {
	if e.stop {
		return
	}
	if !e.Deadline.IsZero() && time.Now().After(e.Deadline) {
		e.Capped = "time budget"
		e.stop = true
		return
	}
	if e.MaxExec > 0 && e.Executions >= e.MaxExec {
		e.Capped = fmt.Sprintf("execution cap %d", e.MaxExec)
		e.stop = true
		return
	}
	x := e.Run(prefix)
	e.AllRuns++
	if x.Divergence != "" {
		e.Found = append(e.Found, Found{Key: "HARNESS-DIVERGENCE", Desc: x.Divergence, Choices: append([]int(nil), prefix...)})
		e.stop = true
		return
	}
	if owned {
		e.Executions++
		np := Preemptions(x.Points, -1)
		e.ByPreempt[np]++
		e.Outcomes[x.Outcome]++
		if len(x.Points) > e.MaxPoints {
			e.MaxPoints = len(x.Points)
		}
		e.ChoicePoints += int64(len(x.Points) - len(prefix))
		if x.Deadlock {
			x.Violations = append(x.Violations, [2]string{"deadlock", "no enabled thread while requests are unfinished"})
		}
		for _, v := range x.Violations {
			e.Found = append(e.Found, Found{Key: v[0], Desc: v[1], Choices: Choices(x.Points), Preemptions: np, Trace: x.Trace})
			if e.StopAtFirst {
				e.stop = true
				return
			}
		}
	}
	for i := len(prefix); i < len(x.Points); i++ {
		p := x.Points[i]
		cost := Preemptions(x.Points, i)
		if p.RunningEnabled {
			cost++
		}
		if e.Bound >= 0 && cost > e.Bound {
			continue
		}
		for alt := 1; alt < len(p.Enabled); alt++ {
			child := make([]int, 0, i+1)
			for j := 0; j < i; j++ {
				child = append(child, x.Points[j].Choice)
			}
			child = append(child, alt)
			childOwned := owned
			if depth < 2 && e.NShards > 1 {
				// level-1 children are run by every shard (to enumerate
				// their children) but owned by one; level-2 subtrees are
				// dealt round-robin.
				e.counter++
				mine := int(e.counter%int64(e.NShards)) == e.Shard
				if depth == 0 {
					e.explore(child, 1, mine)
					continue
				}
				if !mine {
					continue
				}
				childOwned = true
			}
			e.explore(child, depth+1, childOwned)
			if e.stop {
				return
			}
		}
	}
}
