// Package vsem stands in for golang.org/x/sync/semaphore in the rewritten
// cache/disk sources: Acquire is a scheduling point at which the caller is
// enabled only when enough permits are free, so that a thread waiting for the
// disk-wait semaphore is visible to the scheduler (lock-order inversions with
// the index mutex become detectable deadlocks instead of a hung explorer).
// Outside a scheduled session it is the real semaphore.
package vsem

import (
	"context"
	gosync "sync"

	"golang.org/x/sync/semaphore"

	"github.com/buchgr/bazel-remote/v2/utils/verifhook/vsched"
)

type Weighted struct {
	real *semaphore.Weighted
	mu   gosync.Mutex
	free int64
}

func NewWeighted(n int64) *Weighted {
	return &Weighted{real: semaphore.NewWeighted(n), free: n}
}

func (w *Weighted) avail() int64 {
	w.mu.Lock()
	defer w.mu.Unlock()
	return w.free
}

func (w *Weighted) add(d int64) {
	w.mu.Lock()
	w.free += d
	w.mu.Unlock()
}

func (w *Weighted) Acquire(ctx context.Context, n int64) error {
	if vsched.Scheduled() {
		vsched.Await("sem.acquire", func() bool { return w.avail() >= n })
		if !w.real.TryAcquire(n) {
			panic("vsem: permits vanished between the scheduling point and the acquire")
		}
		w.add(-n)
		return nil
	}
	if err := w.real.Acquire(ctx, n); err != nil {
		return err
	}
	w.add(-n)
	return nil
}

func (w *Weighted) TryAcquire(n int64) bool {
	if w.real.TryAcquire(n) {
		w.add(-n)
		return true
	}
	return false
}

func (w *Weighted) Release(n int64) {
	w.add(n)
	w.real.Release(n)
}
