package main

// C15 driver at process level: the servers are started by run() of package
// main (flags -> config -> startHttpServer / ListenAndServeGRPC on unix
// sockets), so that the way the options reach BOTH front ends is part of what
// is explored. One process per configuration (VERIF_PARAM_MANGLE,
// VERIF_PARAM_ASSET, VERIF_PARAM_NOVALID): every (write front end, write
// instance) x (read front end, read instance) pair over an instance alphabet.
// With mangling enabled a result stored under instance I is returned exactly
// for requests naming I, identically over both front ends; with mangling
// disabled the instance name has no effect.

import (
	"bytes"
	"context"
	"fmt"
	"io"
	"log"
	"net"
	"net/http"
	"net/url"
	"os"
	"path/filepath"
	"testing"
	"time"

	"github.com/urfave/cli/v2"
	"google.golang.org/grpc"
	"google.golang.org/grpc/codes"
	"google.golang.org/grpc/credentials/insecure"
	"google.golang.org/grpc/status"
	"google.golang.org/protobuf/proto"

	pb "github.com/buchgr/bazel-remote/v2/genproto/build/bazel/remote/execution/v2"
	"github.com/buchgr/bazel-remote/v2/utils/flags"
	"github.com/buchgr/bazel-remote/v2/verifdrv/vlib"
)

func TestVfC15Main(t *testing.T) {
	mangle := vlib.Param("MANGLE", "1") == "1"
	asset := vlib.Param("ASSET", "0") == "1"
	novalid := vlib.Param("NOVALID", "0") == "1"
	cfgName := fmt.Sprintf("mangling=%v asset_api=%v http_validation=%v", mangle, asset, !novalid)
	rep := vlib.NewReport("C15", "E4-main:"+cfgName)
	defer rep.Write()
	log.SetOutput(io.Discard)

	base := vlib.Scratch("c15main")
	httpSock := filepath.Join(base, "h.sock")
	grpcSock := filepath.Join(base, "g.sock")
	args := []string{"bazel-remote", "--dir", filepath.Join(base, "cache"), "--max_size", "1", "--http_address", "unix://" + httpSock, "--grpc_address", "unix://" + grpcSock,
		"--access_log_level", "none"}
	if mangle {
		args = append(args, "--enable_ac_key_instance_mangling")
	}
	if asset {
		args = append(args, "--experimental_remote_asset_api")
	}
	if novalid {
		args = append(args, "--disable_http_ac_validation")
	}
	app := cli.NewApp()
	cli.AppHelpTemplate = flags.Template
	cli.HelpPrinterCustom = flags.HelpPrinter
	app.ExtraInfo = func() map[string]string { return map[string]string{} }
	app.Flags = flags.GetCliFlags()
	app.Action = run
	app.Writer = io.Discard
	app.ErrWriter = io.Discard
	done := make(chan error, 1)
	go func() { done <- app.Run(args) }()
	deadline := time.Now().Add(30 * time.Second)
	for {
		_, e1 := os.Stat(httpSock)
		_, e2 := os.Stat(grpcSock)
		if e1 == nil && e2 == nil {
			break
		}
		select {
		case err := <-done:
			rep.BrokenHarness("server exited during start-up: %v", err)
			return
		default:
		}
		if time.Now().After(deadline) {
			rep.BrokenHarness("server sockets did not appear")
			return
		}
		time.Sleep(10 * time.Millisecond)
	}
	time.Sleep(50 * time.Millisecond)

	hc := &http.Client{Transport: &http.Transport{DialContext: func(ctx context.Context, _, _ string) (net.Conn, error) {
		return (&net.Dialer{}).DialContext(ctx, "unix", httpSock)
	}}, Timeout: 20 * time.Second}
	conn, err := grpc.NewClient("passthrough:///unix", grpc.WithTransportCredentials(insecure.NewCredentials()),
		grpc.WithContextDialer(func(ctx context.Context, _ string) (net.Conn, error) {
			return (&net.Dialer{}).DialContext(ctx, "unix", grpcSock)
		}))
	if err != nil {
		rep.BrokenHarness("grpc client: %v", err)
		return
	}
	defer conn.Close()
	ac := pb.NewActionCacheClient(conn)

	acURL := func(inst, key string) string {
		u := url.URL{Scheme: "http", Host: "unix", Path: "/ac/" + key}
		if inst != "" {
			u.Path = "/" + inst + "/ac/" + key
		}
		return u.String()
	}
	// put stores ActionResult{exit_code: exit}; get returns the exit code, -1 for a miss, -2 for an error
	put := func(front, inst, key string, exit int32) bool {
		ar := &pb.ActionResult{ExitCode: exit}
		if front == "http" {
			b, _ := proto.Marshal(ar)
			req, _ := http.NewRequest(http.MethodPut, acURL(inst, key), bytes.NewReader(b))
			resp, err := hc.Do(req)
			if err != nil {
				return false
			}
			_, _ = io.Copy(io.Discard, resp.Body)
			_ = resp.Body.Close()
			return resp.StatusCode == 200
		}
		ctx, cancel := context.WithTimeout(context.Background(), 20*time.Second)
		defer cancel()
		_, err := ac.UpdateActionResult(ctx, &pb.UpdateActionResultRequest{InstanceName: inst, ActionDigest: &pb.Digest{Hash: key, SizeBytes: 1}, ActionResult: ar})
		return err == nil
	}
	get := func(front, inst, key string) int32 {
		if front == "http" {
			resp, err := hc.Get(acURL(inst, key))
			if err != nil {
				return -2
			}
			b, _ := io.ReadAll(resp.Body)
			_ = resp.Body.Close()
			if resp.StatusCode == 404 {
				return -1
			}
			if resp.StatusCode != 200 {
				return -2
			}
			var ar pb.ActionResult
			if proto.Unmarshal(b, &ar) != nil {
				return -2
			}
			return ar.ExitCode
		}
		ctx, cancel := context.WithTimeout(context.Background(), 20*time.Second)
		defer cancel()
		ar, err := ac.GetActionResult(ctx, &pb.GetActionResultRequest{InstanceName: inst, ActionDigest: &pb.Digest{Hash: key, SizeBytes: 1}})
		if status.Code(err) == codes.NotFound {
			return -1
		}
		if err != nil {
			return -2
		}
		return ar.ExitCode
	}

	insts := []string{"", "foo", "bar", "a/b", "a", "foo/ac", "cas/x", "blobs", "main/uploads", "ünï/码"}
	fronts := []string{"http", "grpc"}
	n := 0
	for wi, winst := range insts {
		for _, wfront := range fronts {
			n++
			key := vlib.Sha([]byte(fmt.Sprintf("c15main/%s/%d", cfgName, n)))
			exit := int32(100 + n)
			rep.Eval()
			if !put(wfront, winst, key, exit) {
				rep.Violate("C15 main: store failed", fmt.Sprintf("%s: store via %s under instance %q failed", cfgName, wfront, winst), nil)
				continue
			}
			for ri, rinst := range insts {
				for _, rfront := range fronts {
					rep.Eval()
					got := get(rfront, rinst, key)
					wantHit := !mangle || rinst == winst
					if novalid && rfront != wfront {
						// with HTTP validation disabled the HTTP front end uses the raw action cache, a
						// namespace of its own: nothing stored through one front end is visible to the other
						wantHit = false
					}
					k := fmt.Sprintf("C15 main mangling=%v write=%s read=%s", mangle, wfront, rfront)
					desc := fmt.Sprintf("%s (servers started by main.run): stored via %s under instance %q; read via %s with instance %q", cfgName, wfront, winst, rfront, rinst)
					switch {
					case got == -2:
						rep.Violate(k+" error", desc+": error", nil)
					case wantHit && got != exit:
						rep.Violate(k+" not returned for the instance it was stored under / although mangling is off", fmt.Sprintf("%s: got %d, want exit code %d", desc, got, exit), nil)
					case !wantHit && got != -1:
						rep.Violate(k+" returned for another instance", fmt.Sprintf("%s: got exit code %d, want a miss", desc, got), nil)
					default:
						rep.Nontrivial(fmt.Sprintf("%s%s%d%d", wfront, rfront, wi, ri))
						rep.Outcome(fmt.Sprintf("%s hit=%v", k, got >= 0))
					}
				}
			}
		}
	}
	rep.Sample(map[string]interface{}{"config": cfgName, "instances": insts, "stores": n})
}
