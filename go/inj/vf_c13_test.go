package main

// C13 driver: the complete access matrix against the real start-up code
// (run() of package main, servers on unix sockets). One process per server
// configuration; the configuration is given by VERIF_PARAM_AUTH
// (none|htpasswd|mtls), VERIF_PARAM_UNAUTHREADS, VERIF_PARAM_METRICS,
// VERIF_PARAM_ASSET.

import (
	"bytes"
	"context"
	"crypto/ecdsa"
	"crypto/elliptic"
	"crypto/rand"
	"crypto/sha1"
	"crypto/tls"
	"crypto/x509"
	"crypto/x509/pkix"
	"encoding/base64"
	"encoding/pem"
	"fmt"
	"io"
	"log"
	"math/big"
	"net"
	"net/http"
	"os"
	"path/filepath"
	"sort"
	"strings"
	"testing"
	"time"

	"github.com/urfave/cli/v2"
	"google.golang.org/grpc"
	"google.golang.org/grpc/codes"
	"google.golang.org/grpc/credentials"
	"google.golang.org/grpc/credentials/insecure"
	"google.golang.org/grpc/metadata"
	"google.golang.org/grpc/status"
	"google.golang.org/protobuf/reflect/protoreflect"
	"google.golang.org/protobuf/reflect/protoregistry"
	"google.golang.org/protobuf/types/known/emptypb"

	"github.com/buchgr/bazel-remote/v2/utils/flags"
	"github.com/buchgr/bazel-remote/v2/verifdrv/vlib"
)

type vfPKI struct {
	caPEM, srvCert, srvKey string // file paths
	clientOK, clientRogue  tls.Certificate
	pool                   *x509.CertPool
	hostCAPEM              string
	clientHost             tls.Certificate
}

func vfMakePKI(dir string) *vfPKI {
	mk := func(cn string, isCA bool, parent *x509.Certificate, parentKey *ecdsa.PrivateKey, client bool) (*x509.Certificate, *ecdsa.PrivateKey, []byte) {
		key, _ := ecdsa.GenerateKey(elliptic.P256(), rand.Reader)
		serial, _ := rand.Int(rand.Reader, big.NewInt(1<<62))
		tmpl := &x509.Certificate{SerialNumber: serial, Subject: pkix.Name{CommonName: cn},
			NotBefore: time.Now().Add(-time.Hour), NotAfter: time.Now().Add(24 * time.Hour),
			KeyUsage: x509.KeyUsageDigitalSignature | x509.KeyUsageCertSign, BasicConstraintsValid: true, IsCA: isCA,
			DNSNames: []string{"localhost"}, IPAddresses: []net.IP{net.ParseIP("127.0.0.1")}}
		if client {
			tmpl.ExtKeyUsage = []x509.ExtKeyUsage{x509.ExtKeyUsageClientAuth}
		} else {
			tmpl.ExtKeyUsage = []x509.ExtKeyUsage{x509.ExtKeyUsageServerAuth, x509.ExtKeyUsageClientAuth}
		}
		if parent == nil {
			parent, parentKey = tmpl, key
		}
		der, err := x509.CreateCertificate(rand.Reader, tmpl, parent, &key.PublicKey, parentKey)
		if err != nil {
			panic(err)
		}
		c, _ := x509.ParseCertificate(der)
		return c, key, der
	}
	pemCert := func(der []byte) []byte { return pem.EncodeToMemory(&pem.Block{Type: "CERTIFICATE", Bytes: der}) }
	pemKey := func(k *ecdsa.PrivateKey) []byte {
		b, _ := x509.MarshalECPrivateKey(k)
		return pem.EncodeToMemory(&pem.Block{Type: "EC PRIVATE KEY", Bytes: b})
	}
	ca, caKey, caDer := mk("verif CA", true, nil, nil, false)
	_, srvKey, srvDer := mk("localhost", false, ca, caKey, false)
	_, cliKey, cliDer := mk("client", false, ca, caKey, true)
	rogueCA, rogueKey, _ := mk("rogue CA", true, nil, nil, false)
	_, rcKey, rcDer := mk("rogue client", false, rogueCA, rogueKey, true)
	// a CA the HOST trusts (system trust store) but tls_ca_file does not list
	hostCA, hostKey, hostDer := mk("host trusted CA", true, nil, nil, false)
	_, hcKey, hcDer := mk("client of host CA", false, hostCA, hostKey, true)
	p := &vfPKI{caPEM: filepath.Join(dir, "ca.pem"), srvCert: filepath.Join(dir, "srv.pem"), srvKey: filepath.Join(dir, "srv.key"), hostCAPEM: filepath.Join(dir, "host-ca.pem")}
	_ = os.WriteFile(p.hostCAPEM, pemCert(hostDer), 0o600)
	p.clientHost, _ = tls.X509KeyPair(pemCert(hcDer), pemKey(hcKey))
	_ = os.WriteFile(p.caPEM, pemCert(caDer), 0o600)
	_ = os.WriteFile(p.srvCert, pemCert(srvDer), 0o600)
	_ = os.WriteFile(p.srvKey, pemKey(srvKey), 0o600)
	p.clientOK, _ = tls.X509KeyPair(pemCert(cliDer), pemKey(cliKey))
	p.clientRogue, _ = tls.X509KeyPair(pemCert(rcDer), pemKey(rcKey))
	p.pool = x509.NewCertPool()
	p.pool.AddCert(ca)
	return p
}

type vfCred struct {
	name  string
	valid bool
	// http
	header string // Authorization header value ("" none)
	cert   *tls.Certificate
	// grpc metadata
	md map[string]string
}

func basic(u, p string) string {
	return "Basic " + base64.StdEncoding.EncodeToString([]byte(u+":"+p))
}

func vfCountFiles(dir string) int {
	n := 0
	_ = filepath.Walk(dir, func(p string, fi os.FileInfo, err error) error {
		if err == nil && fi.Mode().IsRegular() {
			n++
		}
		return nil
	})
	return n
}

var vfReadOnlyGRPC = map[string]bool{
	"/build.bazel.remote.execution.v2.ActionCache/GetActionResult":                true,
	"/build.bazel.remote.execution.v2.ContentAddressableStorage/FindMissingBlobs": true,
	"/build.bazel.remote.execution.v2.ContentAddressableStorage/BatchReadBlobs":   true,
	"/build.bazel.remote.execution.v2.ContentAddressableStorage/GetTree":          true,
	"/build.bazel.remote.execution.v2.Capabilities/GetCapabilities":               true,
	"/google.bytestream.ByteStream/Read":                                          true,
}

const vfHealthCheck = "/grpc.health.v1.Health/Check"

func TestVfC13(t *testing.T) {
	authMode := vlib.Param("AUTH", "none")
	unauthReads := vlib.Param("UNAUTHREADS", "0") == "1"
	metrics := vlib.Param("METRICS", "0") == "1"
	assetAPI := vlib.Param("ASSET", "1") == "1"
	// "whatever other options are enabled": one further option (set) per configuration
	extras := map[string][]string{
		"none":              nil,
		"idle_timeout":      {"--idle_timeout", "1h"},
		"metrics_prefix":    {"--http_metrics_prefix"},
		"instance_mangling": {"--enable_ac_key_instance_mangling"},
		"no_deps_check":     {"--disable_grpc_ac_deps_check"},
		"uncompressed":      {"--storage_mode", "uncompressed"},
		"max_blob_size":     {"--max_blob_size", "1000000"},
		"http_timeouts":     {"--http_read_timeout", "30s", "--http_write_timeout", "30s"},
		"no_ac_validation":  {"--disable_http_ac_validation"},
		"hard_limit":        {"--max_size_hard_limit", "2"},
	}
	extraName := vlib.Param("EXTRA", "none")
	extra, okx := extras[extraName]
	if !okx {
		t.Fatalf("unknown EXTRA %q", extraName)
	}
	cfgName := fmt.Sprintf("auth=%s allow_unauthenticated_reads=%v endpoint_metrics=%v asset=%v other=%s", authMode, unauthReads, metrics, assetAPI, extraName)
	rep := vlib.NewReport("C13", "E4:"+cfgName)
	defer rep.Write()
	log.SetOutput(io.Discard)

	base := vlib.Scratch("c13")
	cacheDir := filepath.Join(base, "cache")
	httpSock := filepath.Join(base, "h.sock")
	grpcSock := filepath.Join(base, "g.sock")
	pki := vfMakePKI(base)
	// the process's system trust store = exactly one CA that tls_ca_file does not list
	// (x509 reads these variables once, at the first use of the system pool)
	emptyDir := filepath.Join(base, "no-certs")
	_ = os.MkdirAll(emptyDir, 0o755)
	_ = os.Setenv("SSL_CERT_FILE", pki.hostCAPEM)
	_ = os.Setenv("SSL_CERT_DIR", emptyDir)
	args := []string{"bazel-remote", "--dir", cacheDir, "--max_size", "1", "--http_address", "unix://" + httpSock, "--grpc_address", "unix://" + grpcSock,
		"--access_log_level", "none"}
	if assetAPI {
		args = append(args, "--experimental_remote_asset_api")
	}
	if metrics {
		args = append(args, "--enable_endpoint_metrics")
	}
	useTLS := false
	switch authMode {
	case "htpasswd":
		pw := filepath.Join(base, "htpasswd")
		sum := sha1.Sum([]byte("secret"))
		_ = os.WriteFile(pw, []byte("alice:{SHA}"+base64.StdEncoding.EncodeToString(sum[:])+"\n"), 0o600)
		args = append(args, "--htpasswd_file", pw)
	case "mtls":
		args = append(args, "--tls_ca_file", pki.caPEM, "--tls_cert_file", pki.srvCert, "--tls_key_file", pki.srvKey)
		useTLS = true
	}
	if unauthReads {
		args = append(args, "--allow_unauthenticated_reads")
	}
	args = append(args, extra...)

	// exactly what main() does
	app := cli.NewApp()
	cli.AppHelpTemplate = flags.Template
	cli.HelpPrinterCustom = flags.HelpPrinter
	app.ExtraInfo = func() map[string]string { return map[string]string{} }
	app.Flags = flags.GetCliFlags()
	app.Action = run
	app.Writer = io.Discard
	app.ErrWriter = io.Discard
	done := make(chan error, 1)
	go func() { done <- app.Run(args) }()
	deadline := time.Now().Add(30 * time.Second)
	for {
		_, e1 := os.Stat(httpSock)
		_, e2 := os.Stat(grpcSock)
		if e1 == nil && e2 == nil {
			break
		}
		select {
		case err := <-done:
			rep.BrokenHarness("server exited during start-up: %v", err)
			return
		default:
		}
		if time.Now().After(deadline) {
			rep.BrokenHarness("server sockets did not appear")
			return
		}
		time.Sleep(10 * time.Millisecond)
	}
	time.Sleep(50 * time.Millisecond)

	// ---- credential states ----
	var creds []vfCred
	switch authMode {
	case "none":
		creds = []vfCred{{name: "none", valid: true}}
	case "htpasswd":
		creds = []vfCred{
			{name: "none"},
			{name: "malformed-header", header: "Basic !!!notbase64", md: map[string]string{"authorization": "Basic !!!notbase64"}},
			{name: "not-basic", header: "Bearer abcdef", md: map[string]string{"authorization": "Bearer abcdef"}},
			{name: "unknown-user", header: basic("mallory", "secret"), md: map[string]string{"authorization": basic("mallory", "secret")}},
			{name: "wrong-password", header: basic("alice", "wrong"), md: map[string]string{"authorization": basic("alice", "wrong")}},
			{name: "empty-password", header: basic("alice", ""), md: map[string]string{"authorization": basic("alice", "")}},
			{name: "no-colon", header: "Basic " + base64.StdEncoding.EncodeToString([]byte("alice")), md: map[string]string{"authorization": "Basic " + base64.StdEncoding.EncodeToString([]byte("alice"))}},
			{name: "valid", valid: true, header: basic("alice", "secret"), md: map[string]string{"authorization": basic("alice", "secret")}},
		}
	case "mtls":
		creds = []vfCred{
			{name: "no-cert"},
			{name: "unverified-cert", cert: &pki.clientRogue},
			{name: "cert-of-a-ca-the-host-trusts-but-tls_ca_file-does-not-list", cert: &pki.clientHost},
			{name: "valid-cert", valid: true, cert: &pki.clientOK},
		}
	}

	httpClient := func(c vfCred) *http.Client {
		tr := &http.Transport{DialContext: func(ctx context.Context, _, _ string) (net.Conn, error) {
			return (&net.Dialer{}).DialContext(ctx, "unix", httpSock)
		}, DisableKeepAlives: true}
		if useTLS {
			tr.TLSClientConfig = &tls.Config{RootCAs: pki.pool, ServerName: "localhost"}
			if c.cert != nil {
				// present the certificate whatever CA names the server announces
				cc := c.cert
				tr.TLSClientConfig.GetClientCertificate = func(*tls.CertificateRequestInfo) (*tls.Certificate, error) { return cc, nil }
			}
		}
		return &http.Client{Transport: tr, Timeout: 20 * time.Second}
	}
	scheme := "http"
	if useTLS {
		scheme = "https"
	}
	payload := []byte("payload")
	hash := vlib.Sha(payload)
	arBody := []byte{0x20, 0x01} // ActionResult{exit_code: 1}
	acHash := strings.Repeat("ab", 32)
	type ep struct {
		path     string
		readOnly map[string]bool // methods that are read-only on this endpoint
	}
	// the instance-prefixed endpoint uses its own key: without key mangling it would name the same
	// entry as /ac/<acHash>, the seeding below would overwrite it and the old file would be deleted
	// in the background - a file count that changes for a reason of the harness's own making
	acHash2 := strings.Repeat("cd", 32)
	endpoints := []string{"/cas/" + hash, "/ac/" + acHash, "/inst/ac/" + acHash2, "/status", "/metrics", "/"}
	// seed: with valid credentials store a blob and an action result, so that
	// an authorised read is a 200 and a 404 can never hide a missing check
	{
		var valid vfCred
		for _, c := range creds {
			if c.valid {
				valid = c
			}
		}
		cl := httpClient(valid)
		for _, e := range endpoints[:3] {
			body := payload
			if strings.Contains(e, "/ac/") {
				body = arBody
			}
			req, _ := http.NewRequest("PUT", scheme+"://localhost"+e, bytes.NewReader(body))
			if valid.header != "" {
				req.Header.Set("Authorization", valid.header)
			}
			resp, err := cl.Do(req)
			if err != nil || resp.StatusCode != 200 {
				rep.BrokenHarness("cannot seed %s: %v %v", e, err, resp)
				return
			}
			_ = resp.Body.Close()
		}
	}
	methods := []string{"GET", "HEAD", "PUT", "POST", "DELETE", "PATCH", "OPTIONS"}

	filesBefore := vfCountFiles(cacheDir)
	for _, c := range creds {
		cl := httpClient(c)
		for _, e := range endpoints {
			for _, m := range methods {
				rep.Eval()
				var body io.Reader
				if m == "PUT" || m == "POST" || m == "PATCH" {
					body = bytes.NewReader([]byte("payload"))
				}
				req, _ := http.NewRequest(m, scheme+"://localhost"+e, body)
				if c.header != "" {
					req.Header.Set("Authorization", c.header)
				}
				resp, err := cl.Do(req)
				code := -1
				if err == nil {
					code = resp.StatusCode
					_, _ = io.Copy(io.Discard, resp.Body)
					_ = resp.Body.Close()
				}
				id := fmt.Sprintf("%s: HTTP %s %s credentials=%s -> %d (%v)", cfgName, m, e, c.name, code, err)
				key := fmt.Sprintf("C13 http auth=%s unauth_reads=%v metrics=%v %s %s cred=%s", authMode, unauthReads, metrics, m, vfEPClass(e), c.name)
				cacheEP := strings.Contains(e, "/cas/") || strings.Contains(e, "/ac/")
				infoEP := e == "/status" || e == "/metrics"
				readOnly := m == "GET" || m == "HEAD" || infoEP
				tlsRefused := err != nil && useTLS && c.cert != nil && !c.valid
				refused := code == 401 || code == 403 || tlsRefused
				served := code >= 200 && code < 300
				rep.Outcome(fmt.Sprintf("http %s %s cred=%s -> %d", m, vfEPClass(e), c.name, code))
				switch {
				case authMode == "none":
					if refused {
						rep.Violate(key+" refused without authentication configured", id, nil)
					}
				case c.valid:
					if refused || err != nil {
						rep.Violate(key+" valid credentials refused", id, nil)
					} else {
						rep.Nontrivial(key)
					}
				case e == "/":
					if served {
						rep.Violate(key+" served without valid credentials", id, nil)
					}
				case readOnly && unauthReads:
					// a PRESENTED certificate that does not verify fails the TLS handshake as a whole
					// (VerifyClientCertIfGiven): refusing such a client is never unsafe and nothing
					// in the statement promises it service
					if refused && !tlsRefused {
						rep.Violate(key+" read refused although unauthenticated reads are allowed", id, nil)
					} else {
						rep.Nontrivial(key)
					}
				case readOnly && cacheEP:
					// the entry exists: anything but a refusal means the check is missing
					if !refused {
						rep.Violate(key+" served without valid credentials", id, nil)
					} else {
						rep.Nontrivial(key)
					}
				case readOnly: // /status, /metrics
					if served {
						rep.Violate(key+" served without valid credentials", id, nil)
					} else {
						rep.Nontrivial(key)
					}
				case m == "PUT":
					if !refused {
						rep.Violate(key+" write not refused without valid credentials", id, nil)
					} else {
						rep.Nontrivial(key)
					}
				default: // other methods on cache endpoints: must not be performed
					if served {
						rep.Violate(key+" performed without valid credentials", id, nil)
					} else {
						rep.Nontrivial(key)
					}
				}
			}
		}
	}
	if n := vfCountFiles(cacheDir); n != filesBefore && authMode != "none" {
		// the only accepted writes were PUTs with valid credentials of an
		// invalid blob; nothing can have been stored
		rep.Violate("C13 cache content changed", fmt.Sprintf("%s: %d files before, %d after the HTTP matrix", cfgName, filesBefore, n), nil)
	}

	// ---- gRPC: every registered method ----
	dial := func(c vfCred, authority string) *grpc.ClientConn {
		opts := []grpc.DialOption{grpc.WithContextDialer(func(ctx context.Context, _ string) (net.Conn, error) {
			return (&net.Dialer{}).DialContext(ctx, "unix", grpcSock)
		})}
		if useTLS {
			tc := &tls.Config{RootCAs: pki.pool, ServerName: "localhost"}
			if c.cert != nil {
				cc := c.cert
				tc.GetClientCertificate = func(*tls.CertificateRequestInfo) (*tls.Certificate, error) { return cc, nil }
			}
			opts = append(opts, grpc.WithTransportCredentials(credentials.NewTLS(tc)))
		} else {
			opts = append(opts, grpc.WithTransportCredentials(insecure.NewCredentials()))
		}
		if authority != "" {
			opts = append(opts, grpc.WithAuthority(authority))
		}
		conn, err := grpc.NewClient("passthrough:///unix", opts...)
		if err != nil {
			panic(err)
		}
		return conn
	}
	// candidate methods: every method of every protobuf service linked into
	// this binary (a server can only register services whose descriptors
	// are linked); the registered ones are those that do not answer
	// Unimplemented to a fully authorised client.
	var methodsGRPC []string
	streamOf := map[string][2]bool{}
	var candidates []string
	protoregistry.GlobalFiles.RangeFiles(func(fd protoreflect.FileDescriptor) bool {
		svcs := fd.Services()
		for i := 0; i < svcs.Len(); i++ {
			sd := svcs.Get(i)
			ms := sd.Methods()
			for j := 0; j < ms.Len(); j++ {
				md := ms.Get(j)
				full := "/" + string(sd.FullName()) + "/" + string(md.Name())
				candidates = append(candidates, full)
				streamOf[full] = [2]bool{md.IsStreamingClient(), md.IsStreamingServer()}
			}
		}
		return true
	})
	sort.Strings(candidates)
	{
		var validCred vfCred
		for _, c := range creds {
			if c.valid {
				validCred = c
			}
		}
		conn := dial(validCred, "")
		for _, full := range candidates {
			ctx, cancel := context.WithTimeout(context.Background(), 20*time.Second)
			for k, v := range validCred.md {
				ctx = metadata.AppendToOutgoingContext(ctx, k, v)
			}
			var err error
			st := streamOf[full]
			if !st[0] && !st[1] {
				err = conn.Invoke(ctx, full, &emptypb.Empty{}, &emptypb.Empty{})
			} else {
				var s grpc.ClientStream
				s, err = conn.NewStream(ctx, &grpc.StreamDesc{ClientStreams: true, ServerStreams: true}, full)
				if err == nil {
					_ = s.SendMsg(&emptypb.Empty{})
					_ = s.CloseSend()
					err = s.RecvMsg(&emptypb.Empty{})
				}
			}
			cancel()
			if status.Code(err) != codes.Unimplemented {
				methodsGRPC = append(methodsGRPC, full)
			}
		}
		_ = conn.Close()
	}
	rep.Extra["grpc_candidates"] = len(candidates)
	sort.Strings(methodsGRPC)
	if len(methodsGRPC) < 10 {
		rep.BrokenHarness("only %d gRPC methods discovered", len(methodsGRPC))
		return
	}
	rep.Extra["grpc_methods"] = methodsGRPC
	gcreds := creds
	if authMode == "htpasswd" {
		gcreds = append(gcreds, vfCred{name: "valid-via-authority", valid: true, md: map[string]string{":authority": "alice:secret@localhost"}},
			vfCred{name: "wrong-via-authority", md: map[string]string{":authority": "alice:wrong@localhost"}})
	}
	filesBefore = vfCountFiles(cacheDir)
	for _, c := range gcreds {
		authority := ""
		if a, ok := c.md[":authority"]; ok {
			authority = a
		}
		conn := dial(c, authority)
		for _, full := range methodsGRPC {
			rep.Eval()
			ctx, cancel := context.WithTimeout(context.Background(), 20*time.Second)
			for k, v := range c.md {
				if k != ":authority" {
					ctx = metadata.AppendToOutgoingContext(ctx, k, v)
				}
			}
			var err error
			st := streamOf[full]
			if !st[0] && !st[1] {
				err = conn.Invoke(ctx, full, &emptypb.Empty{}, &emptypb.Empty{})
			} else {
				var s grpc.ClientStream
				s, err = conn.NewStream(ctx, &grpc.StreamDesc{ClientStreams: true, ServerStreams: true}, full)
				if err == nil {
					_ = s.SendMsg(&emptypb.Empty{})
					_ = s.CloseSend()
					err = s.RecvMsg(&emptypb.Empty{})
					if err == io.EOF {
						err = nil
					}
				}
			}
			cancel()
			code := status.Code(err)
			id := fmt.Sprintf("%s: gRPC %s credentials=%s -> %s", cfgName, full, c.name, code)
			key := fmt.Sprintf("C13 grpc auth=%s unauth_reads=%v metrics=%v %s cred=%s", authMode, unauthReads, metrics, full, c.name)
			tlsRefused := code == codes.Unavailable && useTLS && c.cert != nil && !c.valid
			refused := code == codes.Unauthenticated || code == codes.PermissionDenied || tlsRefused
			rep.Outcome(fmt.Sprintf("grpc %s cred=%s -> %s", full[strings.LastIndex(full, "/")+1:], c.name, code))
			switch {
			case authMode == "none" || full == vfHealthCheck:
				if refused && !tlsRefused {
					rep.Violate(key+" refused", id, nil)
				}
			case c.valid:
				if refused {
					rep.Violate(key+" valid credentials refused", id, nil)
				} else {
					rep.Nontrivial(key)
				}
			case vfReadOnlyGRPC[full] && unauthReads:
				if refused && !tlsRefused {
					rep.Violate(key+" read refused although unauthenticated reads are allowed", id, nil)
				} else {
					rep.Nontrivial(key)
				}
			case strings.HasPrefix(full, "/grpc.health.v1.Health/") || strings.HasSuffix(full, "/QueryWriteStatus") || strings.HasSuffix(full, "/SplitBlob"):
				// read-only but not in the always-open set: may be refused or served when reads are open
				if !refused && !unauthReads {
					rep.Violate(key+" served without valid credentials", id, nil)
				} else {
					rep.Nontrivial(key)
				}
			default:
				// mutating, or unknown to the harness => treated as mutating
				if !refused {
					rep.Violate(key+" not refused without valid credentials", id, nil)
				} else {
					rep.Nontrivial(key)
				}
			}
		}
		_ = conn.Close()
	}
	if n := vfCountFiles(cacheDir); n != filesBefore {
		rep.Violate("C13 cache content changed", fmt.Sprintf("%s: %d files before, %d after the gRPC matrix (all requests were empty messages)", cfgName, filesBefore, n), nil)
	}
	rep.Sample(map[string]interface{}{"config": cfgName, "http": fmt.Sprintf("%d methods x %d endpoints x %d credential states", len(methods), len(endpoints), len(creds)),
		"grpc": fmt.Sprintf("%d registered methods x %d credential states", len(methodsGRPC), len(gcreds))})
}

func vfEPClass(e string) string {
	switch {
	case strings.HasPrefix(e, "/cas/"):
		return "/cas/<h>"
	case strings.HasPrefix(e, "/ac/"):
		return "/ac/<h>"
	case strings.HasPrefix(e, "/inst/"):
		return "/<instance>/ac/<h>"
	}
	return e
}
