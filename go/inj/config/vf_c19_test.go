package config

// C19: every explicitly given setting means the same as a command-line flag,
// an environment variable or a YAML key; set-ups that cannot work are refused.
// Deviation-bounded enumeration: required settings + every subset of <=2
// (thorough: <=3) further settings x values, rendered three ways and parsed by
// the real flag / YAML code; differential oracle. Invalid classes: each
// combined with every single other valid deviation; must be refused by all
// three front ends.

import (
	"fmt"
	"io"
	"os"
	"reflect"
	"sort"
	"strings"
	"testing"

	"github.com/urfave/cli/v2"

	"github.com/buchgr/bazel-remote/v2/utils/flags"
	"github.com/buchgr/bazel-remote/v2/verifdrv/vlib"
)

type vf19Setting struct {
	flag string
	env  string
	yaml string // dotted path for nested keys, e.g. http_proxy.url
	vals []string
	// needs lists settings that must accompany this one for the configuration to be valid
	needs map[string]string
	bool_ bool
	group string // settings of one group are mutually exclusive (proxy backends)
}

func vf19Settings() []vf19Setting {
	return []vf19Setting{
		{flag: "storage_mode", env: "BAZEL_REMOTE_STORAGE_MODE", yaml: "storage_mode", vals: []string{"zstd", "uncompressed"}},
		{flag: "zstd_implementation", env: "BAZEL_REMOTE_ZSTD_IMPLEMENTATION", yaml: "zstd_implementation", vals: []string{"go", "cgo"}},
		{flag: "max_size_hard_limit", env: "BAZEL_REMOTE_MAX_SIZE_HARD_LIMIT", yaml: "max_size_hard_limit", vals: []string{"7", "100"}},
		{flag: "profile_address", env: "BAZEL_REMOTE_PROFILE_ADDRESS", yaml: "profile_address", vals: []string{"127.0.0.1:7070", "unix:///tmp/p.sock"}},
		{flag: "http_read_timeout", env: "BAZEL_REMOTE_HTTP_READ_TIMEOUT", yaml: "http_read_timeout", vals: []string{"15s", "2m0s"}},
		{flag: "http_write_timeout", env: "BAZEL_REMOTE_HTTP_WRITE_TIMEOUT", yaml: "http_write_timeout", vals: []string{"20s"}},
		{flag: "htpasswd_file", env: "BAZEL_REMOTE_HTPASSWD_FILE", yaml: "htpasswd_file", vals: []string{"/etc/bazel-remote/htpasswd"}},
		{flag: "min_tls_version", env: "BAZEL_REMOTE_MIN_TLS_VERSION", yaml: "min_tls_version", vals: []string{"1.2", "1.3"}},
		{flag: "tls_cert_file", env: "BAZEL_REMOTE_TLS_CERT_FILE", yaml: "tls_cert_file", vals: []string{"/tls/cert.pem"}, needs: map[string]string{"tls_key_file": "/tls/key.pem"}},
		{flag: "tls_ca_file", env: "BAZEL_REMOTE_TLS_CA_FILE", yaml: "tls_ca_file", vals: []string{"/tls/ca.pem"}, needs: map[string]string{"tls_key_file": "/tls/key.pem", "tls_cert_file": "/tls/cert.pem"}},
		{flag: "allow_unauthenticated_reads", env: "BAZEL_REMOTE_UNAUTHENTICATED_READS", yaml: "allow_unauthenticated_reads", vals: []string{"true"}, bool_: true, needs: map[string]string{"htpasswd_file": "/etc/htpasswd"}},
		{flag: "idle_timeout", env: "BAZEL_REMOTE_IDLE_TIMEOUT", yaml: "idle_timeout", vals: []string{"45s", "1h0m0s"}},
		{flag: "max_queued_uploads", env: "BAZEL_REMOTE_MAX_QUEUED_UPLOADS", yaml: "max_queued_uploads", vals: []string{"5", "0"}},
		{flag: "max_blob_size", env: "BAZEL_REMOTE_MAX_BLOB_SIZE", yaml: "max_blob_size", vals: []string{"1", "1048576"}},
		{flag: "max_proxy_blob_size", env: "BAZEL_REMOTE_MAX_PROXY_BLOB_SIZE", yaml: "max_proxy_blob_size", vals: []string{"4096"}},
		{flag: "num_uploaders", env: "BAZEL_REMOTE_NUM_UPLOADERS", yaml: "num_uploaders", vals: []string{"3"}},
		{flag: "disable_http_ac_validation", env: "BAZEL_REMOTE_DISABLE_HTTP_AC_VALIDATION", yaml: "disable_http_ac_validation", vals: []string{"true"}, bool_: true},
		{flag: "disable_grpc_ac_deps_check", env: "BAZEL_REMOTE_DISABLE_GRPS_AC_DEPS_CHECK", yaml: "disable_grpc_ac_deps_check", vals: []string{"true"}, bool_: true},
		{flag: "enable_ac_key_instance_mangling", env: "BAZEL_REMOTE_ENABLE_AC_KEY_INSTANCE_MANGLING", yaml: "enable_ac_key_instance_mangling", vals: []string{"true"}, bool_: true},
		{flag: "enable_endpoint_metrics", env: "BAZEL_REMOTE_ENABLE_ENDPOINT_METRICS", yaml: "enable_endpoint_metrics", vals: []string{"true"}, bool_: true},
		{flag: "http_metrics_prefix", env: "BAZEL_REMOTE_HTTP_METRICS_PREFIX", yaml: "http_metrics_prefix", vals: []string{"true"}, bool_: true},
		{flag: "experimental_remote_asset_api", env: "BAZEL_REMOTE_EXPERIMENTAL_REMOTE_ASSET_API", yaml: "experimental_remote_asset_api", vals: []string{"true"}, bool_: true},
		{flag: "access_log_level", env: "BAZEL_REMOTE_ACCESS_LOG_LEVEL", yaml: "access_log_level", vals: []string{"none", "all"}},
		{flag: "log_timezone", env: "BAZEL_REMOTE_LOG_TIMEZONE", yaml: "log_timezone", vals: []string{"local", "none"}},
		{flag: "http_proxy.url", env: "BAZEL_REMOTE_HTTP_PROXY_URL", yaml: "http_proxy.url", vals: []string{"https://backend.example:8443/prefix"}, group: "proxy"},
		{flag: "grpc_proxy.url", env: "BAZEL_REMOTE_GRPC_PROXY_URL", yaml: "grpc_proxy.url", vals: []string{"grpc://backend.example:9092"}, group: "proxy"},
		{flag: "gcs_proxy.bucket", env: "BAZEL_REMOTE_GCS_BUCKET", yaml: "gcs_proxy.bucket", vals: []string{"my-bucket"}, group: "proxy"},
		{flag: "s3.bucket", env: "BAZEL_REMOTE_S3_BUCKET", yaml: "s3_proxy.bucket", vals: []string{"s3bucket"}, group: "proxy",
			needs: map[string]string{"s3.endpoint": "s3.example:9000", "s3.auth_method": "access_key", "s3.access_key_id": "AK", "s3.secret_access_key": "SK",
				// defaults of these two differ between the front ends ("default"/"auto" vs empty): give them explicitly
				"s3.aws_profile": "prof", "s3.bucket_lookup_type": "dns"}},
	}
}

// extra (flag, env, yaml) names for settings only used as companions
var vf19Companions = map[string][2]string{
	"tls_key_file":                  {"BAZEL_REMOTE_TLS_KEY_FILE", "tls_key_file"},
	"tls_cert_file":                 {"BAZEL_REMOTE_TLS_CERT_FILE", "tls_cert_file"},
	"htpasswd_file":                 {"BAZEL_REMOTE_HTPASSWD_FILE", "htpasswd_file"},
	"s3.endpoint":                   {"BAZEL_REMOTE_S3_ENDPOINT", "s3_proxy.endpoint"},
	"s3.auth_method":                {"BAZEL_REMOTE_S3_AUTH_METHOD", "s3_proxy.auth_method"},
	"s3.access_key_id":              {"BAZEL_REMOTE_S3_ACCESS_KEY_ID", "s3_proxy.access_key_id"},
	"s3.secret_access_key":          {"BAZEL_REMOTE_S3_SECRET_ACCESS_KEY", "s3_proxy.secret_access_key"},
	"s3.aws_profile":                {"BAZEL_REMOTE_S3_AWS_PROFILE", "s3_proxy.aws_profile"},
	"s3.bucket_lookup_type":         {"BAZEL_REMOTE_S3_BUCKET_LOOKUP_TYPE", "s3_proxy.bucket_lookup_type"},
	"dir":                           {"BAZEL_REMOTE_DIR", "dir"},
	"max_size":                      {"BAZEL_REMOTE_MAX_SIZE", "max_size"},
	"http_address":                  {"BAZEL_REMOTE_HTTP_ADDRESS", "http_address"},
	"grpc_address":                  {"BAZEL_REMOTE_GRPC_ADDRESS", "grpc_address"},
	"max_size_hard_limit":           {"BAZEL_REMOTE_MAX_SIZE_HARD_LIMIT", "max_size_hard_limit"},
	"host":                          {"BAZEL_REMOTE_HOST", "host"},
	"port":                          {"BAZEL_REMOTE_PORT", "port"},
	"grpc_port":                     {"BAZEL_REMOTE_GRPC_PORT", "grpc_port"},
	"profile_host":                  {"BAZEL_REMOTE_PROFILE_HOST", "profile_host"},
	"profile_port":                  {"BAZEL_REMOTE_PROFILE_PORT", "profile_port"},
	"storage_mode":                  {"BAZEL_REMOTE_STORAGE_MODE", "storage_mode"},
	"zstd_implementation":           {"BAZEL_REMOTE_ZSTD_IMPLEMENTATION", "zstd_implementation"},
	"tls_ca_file":                   {"BAZEL_REMOTE_TLS_CA_FILE", "tls_ca_file"},
	"allow_unauthenticated_reads":   {"BAZEL_REMOTE_UNAUTHENTICATED_READS", "allow_unauthenticated_reads"},
	"max_blob_size":                 {"BAZEL_REMOTE_MAX_BLOB_SIZE", "max_blob_size"},
	"max_proxy_blob_size":           {"BAZEL_REMOTE_MAX_PROXY_BLOB_SIZE", "max_proxy_blob_size"},
	"http_proxy.url":                {"BAZEL_REMOTE_HTTP_PROXY_URL", "http_proxy.url"},
	"grpc_proxy.url":                {"BAZEL_REMOTE_GRPC_PROXY_URL", "grpc_proxy.url"},
	"gcs_proxy.bucket":              {"BAZEL_REMOTE_GCS_BUCKET", "gcs_proxy.bucket"},
	"experimental_remote_asset_api": {"BAZEL_REMOTE_EXPERIMENTAL_REMOTE_ASSET_API", "experimental_remote_asset_api"},
}

type vf19KV struct{ flag, val string }

func vf19Names(flag string) (env, yamlKey string) {
	for _, s := range vf19Settings() {
		if s.flag == flag {
			return s.env, s.yaml
		}
	}
	if c, ok := vf19Companions[flag]; ok {
		return c[0], c[1]
	}
	panic("no names for " + flag)
}

func vf19RunCLI(args []string, env map[string]string) (*Config, error) {
	for k, v := range env {
		os.Setenv(k, v)
	}
	defer func() {
		for k := range env {
			os.Unsetenv(k)
		}
	}()
	var cfg *Config
	var cerr error
	app := cli.NewApp()
	app.Flags = flags.GetCliFlags()
	app.Writer, app.ErrWriter = io.Discard, io.Discard
	app.ExitErrHandler = func(*cli.Context, error) {}
	app.Action = func(ctx *cli.Context) error {
		cfg, cerr = get(ctx)
		return nil
	}
	if err := app.Run(append([]string{"bazel-remote"}, args...)); err != nil {
		return nil, err
	}
	return cfg, cerr
}

func vf19YAML(kvs []vf19KV) string {
	top := map[string]string{}
	nested := map[string][]string{}
	var order []string
	for _, kv := range kvs {
		_, y := vf19Names(kv.flag)
		val := kv.val
		if !(val == "true" || val == "false" || isNumber(val)) {
			val = "\"" + val + "\""
		}
		if i := strings.IndexByte(y, '.'); i > 0 {
			sec := y[:i]
			if _, ok := nested[sec]; !ok {
				order = append(order, sec)
			}
			nested[sec] = append(nested[sec], "  "+y[i+1:]+": "+val)
		} else {
			top[y] = val
		}
	}
	var b strings.Builder
	var keys []string
	for k := range top {
		keys = append(keys, k)
	}
	sort.Strings(keys)
	for _, k := range keys {
		b.WriteString(k + ": " + top[k] + "\n")
	}
	for _, sec := range order {
		b.WriteString(sec + ":\n" + strings.Join(nested[sec], "\n") + "\n")
	}
	return b.String()
}

func isNumber(s string) bool {
	if s == "" {
		return false
	}
	for i, c := range s {
		if !(c >= '0' && c <= '9') && !(i == 0 && c == '-') {
			return false
		}
	}
	return true
}

// three front ends
func vf19Three(kvs []vf19KV) (res [3]*Config, errs [3]error) {
	var args []string
	env := map[string]string{}
	for _, kv := range kvs {
		args = append(args, "--"+kv.flag+"="+kv.val)
		e, _ := vf19Names(kv.flag)
		env[e] = kv.val
	}
	res[0], errs[0] = vf19RunCLI(args, nil)
	res[1], errs[1] = vf19RunCLI(nil, env)
	res[2], errs[2] = NewFromYaml([]byte(vf19YAML(kvs)))
	return
}

func vf19Basic(c *Config) Config {
	cp := *c
	cp.ProxyBackend, cp.TLSConfig, cp.AccessLogger, cp.ErrorLogger = nil, nil, nil, nil
	return cp
}

func vf19Desc(kvs []vf19KV) string {
	var p []string
	for _, kv := range kvs {
		p = append(p, kv.flag+"="+kv.val)
	}
	return strings.Join(p, " ")
}

var vf19Fronts = [3]string{"flags", "environment", "yaml"}

func vf19Diff(a, b Config) string {
	va, vb := reflect.ValueOf(a), reflect.ValueOf(b)
	var out []string
	for i := 0; i < va.NumField(); i++ {
		if !reflect.DeepEqual(va.Field(i).Interface(), vb.Field(i).Interface()) {
			fa, fb := va.Field(i).Interface(), vb.Field(i).Interface()
			sa, sb := fmt.Sprintf("%+v", fa), fmt.Sprintf("%+v", fb)
			if va.Field(i).Kind() == reflect.Ptr && !va.Field(i).IsNil() && !vb.Field(i).IsNil() {
				sa, sb = fmt.Sprintf("%+v", va.Field(i).Elem().Interface()), fmt.Sprintf("%+v", vb.Field(i).Elem().Interface())
			}
			out = append(out, fmt.Sprintf("%s: %s vs %s", va.Type().Field(i).Name, sa, sb))
		}
	}
	return strings.Join(out, "; ")
}

func TestVfC19(t *testing.T) {
	rep := vlib.NewReport("C19", "E4:config")
	defer rep.Write()
	for _, e := range os.Environ() {
		if strings.HasPrefix(e, "BAZEL_REMOTE_") {
			os.Unsetenv(strings.SplitN(e, "=", 2)[0])
		}
	}
	base := []vf19KV{{"dir", "/var/cache/br"}, {"max_size", "5"}, {"http_address", "localhost:8080"}, {"grpc_address", "localhost:9092"}, {"max_size_hard_limit", "0"}}
	settings := vf19Settings()
	maxExtra := 2
	if vlib.Thorough() {
		maxExtra = 3
	}
	withNeeds := func(kvs []vf19KV, s vf19Setting) []vf19KV {
		have := map[string]bool{}
		for _, kv := range kvs {
			have[kv.flag] = true
		}
		var ks []string
		for k := range s.needs {
			ks = append(ks, k)
		}
		sort.Strings(ks)
		for _, k := range ks {
			if !have[k] {
				kvs = append(kvs, vf19KV{k, s.needs[k]})
			}
		}
		return kvs
	}
	replaceOrAdd := func(kvs []vf19KV, kv vf19KV) []vf19KV {
		out := append([]vf19KV(nil), kvs...)
		for i := range out {
			if out[i].flag == kv.flag {
				out[i] = kv
				return out
			}
		}
		return append(out, kv)
	}
	// ---- valid configurations: differential ----
	var rec func(start int, chosen []int, kvs []vf19KV, groups map[string]bool)
	check := func(kvs []vf19KV) {
		rep.Eval()
		res, errs := vf19Three(kvs)
		desc := vf19Desc(kvs)
		for i := 0; i < 3; i++ {
			if errs[i] != nil || res[i] == nil {
				rep.Violate("C19 valid configuration refused by "+vf19Fronts[i], fmt.Sprintf("settings [%s] given as %s: %v", desc, vf19Fronts[i], errs[i]), map[string]interface{}{"settings": desc})
				return
			}
		}
		b0 := vf19Basic(res[0])
		for i := 1; i < 3; i++ {
			bi := vf19Basic(res[i])
			if !reflect.DeepEqual(b0, bi) {
				d := vf19Diff(b0, bi)
				fld := strings.SplitN(d, ":", 2)[0]
				rep.Violate(fmt.Sprintf("C19 %s and %s disagree on %s", vf19Fronts[0], vf19Fronts[i], fld), fmt.Sprintf("settings [%s]: effective configuration differs between %s and %s: %s", desc, vf19Fronts[0], vf19Fronts[i], d), map[string]interface{}{"settings": desc})
				return
			}
		}
		rep.Nontrivial(desc)
	}
	rec = func(start int, chosen []int, kvs []vf19KV, groups map[string]bool) {
		check(kvs)
		if len(chosen) == maxExtra {
			return
		}
		for i := start; i < len(settings); i++ {
			s := settings[i]
			if s.group != "" && groups[s.group] {
				continue
			}
			for _, v := range s.vals {
				n := replaceOrAdd(kvs, vf19KV{s.flag, v})
				n = withNeeds(n, s)
				g := map[string]bool{}
				for k := range groups {
					g[k] = true
				}
				if s.group != "" {
					g[s.group] = true
				}
				rec(i+1, append(append([]int(nil), chosen...), i), n, g)
			}
		}
	}
	rec(0, nil, base, map[string]bool{})

	// deprecated host/port forms against the address forms
	for _, c := range []struct {
		name       string
		deprecated []vf19KV
		modern     []vf19KV
	}{
		{"host+port", []vf19KV{{"host", "10.0.0.1"}, {"port", "8123"}}, []vf19KV{{"http_address", "10.0.0.1:8123"}}},
		{"grpc_port", []vf19KV{{"host", "10.0.0.1"}, {"port", "8123"}, {"grpc_port", "9123"}}, []vf19KV{{"http_address", "10.0.0.1:8123"}, {"grpc_address", "10.0.0.1:9123"}}},
		{"profile_host+profile_port", []vf19KV{{"http_address", "h:1"}, {"grpc_address", "h:2"}, {"profile_host", "127.0.0.9"}, {"profile_port", "6060"}}, []vf19KV{{"http_address", "h:1"}, {"grpc_address", "h:2"}, {"profile_address", "127.0.0.9:6060"}}},
		// mixed: one listener in the current form, the other in the deprecated form
		{"grpc_port", []vf19KV{{"http_address", "127.0.0.1:8080"}, {"host", "10.0.0.1"}, {"grpc_port", "9123"}}, []vf19KV{{"http_address", "127.0.0.1:8080"}, {"grpc_address", "10.0.0.1:9123"}}},
		{"grpc_port", []vf19KV{{"http_address", "127.0.0.1:8080"}, {"grpc_port", "9123"}}, []vf19KV{{"http_address", "127.0.0.1:8080"}, {"grpc_address", ":9123"}}},
		{"host+port", []vf19KV{{"host", "10.0.0.1"}, {"port", "8123"}, {"grpc_address", "g:9"}}, []vf19KV{{"http_address", "10.0.0.1:8123"}, {"grpc_address", "g:9"}}},
		{"profile_host+profile_port", []vf19KV{{"host", "h"}, {"port", "1"}, {"grpc_port", "2"}, {"profile_address", "127.0.0.9:6060"}}, []vf19KV{{"http_address", "h:1"}, {"grpc_address", "h:2"}, {"profile_address", "127.0.0.9:6060"}}},
	} {
		req := []vf19KV{{"dir", "/d"}, {"max_size", "1"}, {"max_size_hard_limit", "0"}}
		hasG := false
		for _, kv := range c.deprecated {
			if kv.flag == "grpc_address" || kv.flag == "grpc_port" {
				hasG = true
			}
		}
		if !hasG {
			req = append(req, vf19KV{"grpc_address", "g:9"})
		}
		dres, derrs := vf19Three(append(append([]vf19KV(nil), req...), c.deprecated...))
		mres, merrs := vf19Three(append(append([]vf19KV(nil), req...), c.modern...))
		for i := 0; i < 3; i++ {
			rep.Eval() // one evaluation per front end
			if derrs[i] != nil || merrs[i] != nil {
				rep.Violate("C19 deprecated listener form refused", fmt.Sprintf("%s via %s: %v / %v", c.name, vf19Fronts[i], derrs[i], merrs[i]), nil)
				continue
			}
			a, b := vf19Basic(dres[i]), vf19Basic(mres[i])
			if a.HTTPAddress != b.HTTPAddress || a.GRPCAddress != b.GRPCAddress || a.ProfileAddress != b.ProfileAddress {
				rep.Violate("C19 deprecated listener form means something else", fmt.Sprintf("%s via %s: %s/%s/%s vs %s/%s/%s", c.name, vf19Fronts[i], a.HTTPAddress, a.GRPCAddress, a.ProfileAddress, b.HTTPAddress, b.GRPCAddress, b.ProfileAddress), nil)
			} else {
				rep.Nontrivial(fmt.Sprintf("deprecated %s %v %s", c.name, c.deprecated, vf19Fronts[i]))
			}
		}
	}

	// ---- invalid classes: refused by every front end, whatever else is set ----
	type invalid struct {
		name   string
		mutate func([]vf19KV) []vf19KV
	}
	drop := func(flag string) func([]vf19KV) []vf19KV {
		return func(kvs []vf19KV) []vf19KV {
			var out []vf19KV
			for _, kv := range kvs {
				if kv.flag != flag {
					out = append(out, kv)
				}
			}
			return out
		}
	}
	set := func(pairs ...string) func([]vf19KV) []vf19KV {
		return func(kvs []vf19KV) []vf19KV {
			out := append([]vf19KV(nil), kvs...)
			for i := 0; i+1 < len(pairs); i += 2 {
				out = replaceOrAdd(out, vf19KV{pairs[i], pairs[i+1]})
			}
			return out
		}
	}
	invalids := []invalid{
		{"missing dir", drop("dir")},
		{"missing max_size", drop("max_size")},
		{"max_size zero", set("max_size", "0")},
		{"max_size negative", set("max_size", "-3")},
		{"unknown storage mode", set("storage_mode", "gzip")},
		{"unknown zstd implementation", set("zstd_implementation", "rust")},
		{"HTTP and gRPC on one port", set("http_address", "localhost:8080", "grpc_address", "0.0.0.0:8080")},
		{"TLS cert without key", set("tls_cert_file", "/c.pem")},
		{"TLS key without cert", set("tls_key_file", "/k.pem")},
		{"mTLS without server certificate", set("tls_ca_file", "/ca.pem")},
		{"unauthenticated reads without authentication", set("allow_unauthenticated_reads", "true")},
		{"two proxy backends (http+grpc)", set("http_proxy.url", "http://a/", "grpc_proxy.url", "grpc://b:1")},
		{"two proxy backends (gcs+http)", set("gcs_proxy.bucket", "b", "http_proxy.url", "http://a/")},
		{"max_blob_size zero", set("max_blob_size", "0")},
		{"max_blob_size negative", set("max_blob_size", "-1")},
		{"max_proxy_blob_size zero", set("max_proxy_blob_size", "0")},
		{"http_address without port", set("http_address", "localhost")},
		{"http_address empty unix socket", set("http_address", "unix://")},
		{"grpc_address without port", set("grpc_address", "localhost")},
		{"grpc_address empty unix socket", set("grpc_address", "unix://")},
		{"remote asset API without gRPC", set("grpc_address", "none", "experimental_remote_asset_api", "true")},
	}
	for _, inv := range invalids {
		// alone, and combined with every single other valid deviation
		combos := [][]vf19KV{base}
		for _, s := range settings {
			for _, v := range s.vals {
				combos = append(combos, withNeeds(replaceOrAdd(base, vf19KV{s.flag, v}), s))
			}
		}
		for _, c := range combos {
			kvs := inv.mutate(c)
			// skip combinations where the deviation itself repairs the invalid class
			if vf19Repaired(inv.name, c) {
				rep.Skip("deviation repairs the invalid class")
				continue
			}
			rep.Eval()
			_, errs := vf19Three(kvs)
			for i := 0; i < 3; i++ {
				if errs[i] == nil {
					rep.Violate(fmt.Sprintf("C19 invalid set-up accepted by %s: %s", vf19Fronts[i], inv.name), fmt.Sprintf("settings [%s] given as %s were accepted", vf19Desc(kvs), vf19Fronts[i]), map[string]interface{}{"settings": vf19Desc(kvs)})
				}
			}
			rep.Nontrivial("invalid " + inv.name + vf19Desc(kvs))
		}
	}
	rep.Sample(map[string]interface{}{"base": vf19Desc(base), "settings": len(settings), "max_extra_settings": maxExtra, "invalid_classes": len(invalids)})
}

// vf19Repaired: the combined valid deviation already supplies what the invalid class lacks.
func vf19Repaired(inv string, c []vf19KV) bool {
	has := func(f string) bool {
		for _, kv := range c {
			if kv.flag == f {
				return true
			}
		}
		return false
	}
	switch inv {
	case "TLS cert without key":
		return has("tls_key_file")
	case "TLS key without cert":
		return has("tls_cert_file")
	case "mTLS without server certificate":
		return has("tls_cert_file")
	case "unauthenticated reads without authentication":
		return has("htpasswd_file") || has("tls_ca_file")
	case "two proxy backends (http+grpc)", "two proxy backends (gcs+http)":
		return false
	}
	return false
}
