package tempfile

import (
	"reflect"
	"unsafe"
)

// VfSeed makes the pseudo-random suffixes reproducible when the generator
// still has the shape this harness knows (a uint32 state field "idum"); with
// another generator it does nothing - the harness does not depend on the
// names (the scheduler normalises the random part of file names).
func (c *Creator) VfSeed(s uint32) {
	v := reflect.ValueOf(c).Elem()
	f := v.FieldByName("idum")
	if !f.IsValid() || f.Kind() != reflect.Uint32 {
		return
	}
	if mu := v.FieldByName("mu"); mu.IsValid() {
		if l, ok := reflect.NewAt(mu.Type(), unsafe.Pointer(mu.UnsafeAddr())).Interface().(interface {
			Lock()
			Unlock()
		}); ok {
			l.Lock()
			defer l.Unlock()
		}
	}
	reflect.NewAt(f.Type(), unsafe.Pointer(f.UnsafeAddr())).Elem().SetUint(uint64(s))
}
