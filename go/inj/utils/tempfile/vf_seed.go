package tempfile

// VfSeed makes the pseudo-random suffixes reproducible (harness only).
func (c *Creator) VfSeed(s uint32) {
	c.mu.Lock()
	c.idum = s
	c.mu.Unlock()
}
