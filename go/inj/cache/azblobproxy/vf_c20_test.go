package azblobproxy

// C20: backend object names are a fixed, injective function of key space,
// hash, storage mode (v1/v2 key function) and prefix.

import (
	"encoding/json"
	"fmt"
	"os"
	"path/filepath"
	"testing"

	"github.com/buchgr/bazel-remote/v2/cache"
	"github.com/buchgr/bazel-remote/v2/verifdrv/vlib"
)

func TestVfC20Names(t *testing.T) {
	rep := vlib.NewReport("C20", "E4:names/azblobproxy")
	defer rep.Write()
	hashes := []string{
		"e3b0c44298fc1c149afbf4c8996fb92427ae41e4649b934ca495991b7852b855",
		"0000000000000000000000000000000000000000000000000000000000000000",
		"fffefdfcfbfaf9f8f7f6f5f4f3f2f1f0efeeedecebeae9e8e7e6e5e4e3e2e1e0",
		"caca000000000000000000000000000000000000000000000000000000000000",
	}
	prefixes := []string{"", "p", "p/q", "p/", "cas", "ac/raw", "cas.v2"}
	kinds := []cache.EntryKind{cache.CAS, cache.AC, cache.RAW}
	got := map[string]string{}
	for _, v := range []string{"v1", "v2"} {
		for _, pf := range prefixes {
			seen := map[string]string{}
			for _, k := range kinds {
				for _, h := range hashes {
					rep.Eval()
					var name string
					if v == "v1" {
						name = objectKeyV1(pf, h, k)
					} else {
						name = objectKeyV2(pf, h, k)
					}
					tuple := fmt.Sprintf("%s|%s|%s|%s", v, pf, k, h)
					got[tuple] = name
					if prev, dup := seen[name]; dup {
						rep.Violate("C20 azblobproxy object name not injective", fmt.Sprintf("%s and %s both map to %q", prev, tuple, name), nil)
					}
					seen[name] = tuple
					rep.Nontrivial(tuple)
				}
			}
		}
	}
	golden := filepath.Join(os.Getenv("VERIF_DIR"), "golden", "names-azblobproxy.json")
	if os.Getenv("VERIF_PARAM_GOLDEN_WRITE") == "1" {
		b, _ := json.MarshalIndent(got, "", " ")
		_ = os.WriteFile(golden, b, 0o644)
		return
	}
	raw, err := os.ReadFile(golden)
	if err != nil {
		rep.BrokenHarness("no golden table: %v", err)
		return
	}
	want := map[string]string{}
	_ = json.Unmarshal(raw, &want)
	for tuple, name := range want {
		if got[tuple] != name {
			rep.Violate("C20 azblobproxy object name changed", fmt.Sprintf("(version|prefix|kind|hash)=%s: pinned release names it %q, this build %q", tuple, name, got[tuple]), nil)
		}
	}
	rep.Sample(map[string]interface{}{"tuples": len(got), "example": got["v2|p/q|cas|"+hashes[2]]})
}
