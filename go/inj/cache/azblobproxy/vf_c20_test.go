package azblobproxy

// C20: backend object names are a fixed, injective function of key space,
// hash, storage mode (v1/v2 key function) and prefix.

import (
	"context"
	"encoding/json"
	"fmt"
	"io"
	"net/http"
	"net/http/httptest"
	"os"
	"path/filepath"
	"strings"
	gosync "sync"
	"testing"

	"github.com/Azure/azure-sdk-for-go/sdk/azcore"
	"github.com/Azure/azure-sdk-for-go/sdk/azcore/policy"
	"github.com/Azure/azure-sdk-for-go/sdk/storage/azblob/container"

	"github.com/buchgr/bazel-remote/v2/utils/backendproxy"

	"github.com/buchgr/bazel-remote/v2/cache"
	"github.com/buchgr/bazel-remote/v2/verifdrv/vlib"
)

func TestVfC20Names(t *testing.T) {
	rep := vlib.NewReport("C20", "E4:names/azblobproxy")
	defer rep.Write()
	hashes := []string{
		"e3b0c44298fc1c149afbf4c8996fb92427ae41e4649b934ca495991b7852b855",
		"0000000000000000000000000000000000000000000000000000000000000000",
		"fffefdfcfbfaf9f8f7f6f5f4f3f2f1f0efeeedecebeae9e8e7e6e5e4e3e2e1e0",
		"caca000000000000000000000000000000000000000000000000000000000000",
	}
	prefixes := []string{"", "p", "p/q", "p/", "cas", "ac/raw", "cas.v2"}
	kinds := []cache.EntryKind{cache.CAS, cache.AC, cache.RAW}
	got := map[string]string{}
	for _, v := range []string{"v1", "v2"} {
		for _, pf := range prefixes {
			seen := map[string]string{}
			for _, k := range kinds {
				for _, h := range hashes {
					rep.Eval()
					var name string
					if v == "v1" {
						name = objectKeyV1(pf, h, k)
					} else {
						name = objectKeyV2(pf, h, k)
					}
					tuple := fmt.Sprintf("%s|%s|%s|%s", v, pf, k, h)
					got[tuple] = name
					if prev, dup := seen[name]; dup {
						rep.Violate("C20 azblobproxy object name not injective", fmt.Sprintf("%s and %s both map to %q", prev, tuple, name), nil)
					}
					seen[name] = tuple
					rep.Nontrivial(tuple)
				}
			}
		}
	}
	golden := filepath.Join(os.Getenv("VERIF_DIR"), "golden", "names-azblobproxy.json")
	if os.Getenv("VERIF_PARAM_GOLDEN_WRITE") == "1" {
		b, _ := json.MarshalIndent(got, "", " ")
		_ = os.WriteFile(golden, b, 0o644)
		return
	}
	raw, err := os.ReadFile(golden)
	if err != nil {
		rep.BrokenHarness("no golden table: %v", err)
		return
	}
	want := map[string]string{}
	_ = json.Unmarshal(raw, &want)
	for tuple, name := range want {
		if got[tuple] != name {
			rep.Violate("C20 azblobproxy object name changed", fmt.Sprintf("(version|prefix|kind|hash)=%s: pinned release names it %q, this build %q", tuple, name, got[tuple]), nil)
		}
	}
	rep.Sample(map[string]interface{}{"tuples": len(got), "example": got["v2|p/q|cas|"+hashes[2]]})
}

// TestVfC20Wire: the names that actually go over the wire. An azBlobCache is
// pointed at a local fake of the Azure Blob REST endpoint that records the
// path of every request; Contains (HEAD), Get (GET) and UploadFile (PUT) must
// all use one name per (mode, prefix, kind, hash), injective, and equal to
// the golden table written from the pinned tree.
func TestVfC20Wire(t *testing.T) {
	rep := vlib.NewReport("C20", "E4:wire-names/azblobproxy")
	defer rep.Write()
	var mu gosync.Mutex
	var seenPaths []string
	srv := httptest.NewServer(http.HandlerFunc(func(w http.ResponseWriter, r *http.Request) {
		_, _ = io.Copy(io.Discard, r.Body)
		mu.Lock()
		seenPaths = append(seenPaths, r.Method+" "+r.URL.EscapedPath())
		mu.Unlock()
		if r.Method == http.MethodPut {
			w.WriteHeader(201)
			return
		}
		w.Header().Set("x-ms-error-code", "BlobNotFound")
		w.WriteHeader(404)
	}))
	defer srv.Close()
	cc, err := container.NewClientWithNoCredential(srv.URL+"/thecontainer", &container.ClientOptions{
		ClientOptions: azcore.ClientOptions{Transport: srv.Client(), Retry: policy.RetryOptions{MaxRetries: -1}, InsecureAllowCredentialWithHTTP: true}})
	if err != nil {
		rep.BrokenHarness("container client: %v", err)
		return
	}
	take := func() []string {
		mu.Lock()
		defer mu.Unlock()
		out := seenPaths
		seenPaths = nil
		return out
	}
	hashes := []string{
		"0000000000000000000000000000000000000000000000000000000000000000",
		"fffefdfcfbfaf9f8f7f6f5f4f3f2f1f0efeeedecebeae9e8e7e6e5e4e3e2e1e0",
	}
	prefixes := []string{"", "p", "p/q", "team/cache", "cas"}
	kinds := []cache.EntryKind{cache.CAS, cache.AC, cache.RAW}
	got := map[string]string{}
	for _, v2 := range []bool{false, true} {
		for _, pf := range prefixes {
			c := &azBlobCache{containerClient: cc, storageAccount: "acct", container: "thecontainer", prefix: pf, v2mode: v2,
				accessLogger: vlib.SilentLogger(), errorLogger: vlib.SilentLogger()}
			if v2 {
				c.objectKey = func(hash string, kind cache.EntryKind) string { return objectKeyV2(c.prefix, hash, kind) }
			} else {
				c.objectKey = func(hash string, kind cache.EntryKind) string { return objectKeyV1(c.prefix, hash, kind) }
			}
			seen := map[string]string{}
			for _, k := range kinds {
				for _, h := range hashes {
					rep.Eval()
					tuple := fmt.Sprintf("v2=%v|%s|%s|%s", v2, pf, k, h)
					take()
					_, _ = c.Contains(context.Background(), k, h, 10)
					rc, _, _ := c.Get(context.Background(), k, h, 10)
					if rc != nil {
						_ = rc.Close()
					}
					c.UploadFile(backendproxy.UploadReq{Hash: h, LogicalSize: 3, SizeOnDisk: 3, Kind: k, Rc: vfRSC{strings.NewReader("abc")}})
					paths := take()
					names := map[string]bool{}
					for _, p := range paths {
						i := strings.Index(p, "/thecontainer/")
						if i < 0 {
							continue
						}
						names[p[i+len("/thecontainer/"):]] = true
					}
					if len(paths) < 3 || len(names) != 1 {
						rep.Violate("C20 azblobproxy Contains / Get / UploadFile do not use one object name", fmt.Sprintf("%s: requests %v", tuple, paths), nil)
						continue
					}
					var name string
					for n := range names {
						name = n
					}
					got[tuple] = name
					if prev, dup := seen[name]; dup {
						rep.Violate("C20 azblobproxy wire name not injective", fmt.Sprintf("%s and %s both use %q", prev, tuple, name), nil)
					}
					seen[name] = tuple
					rep.Nontrivial(tuple)
				}
			}
		}
	}
	golden := filepath.Join(os.Getenv("VERIF_DIR"), "golden", "names-azblobproxy-wire.json")
	if os.Getenv("VERIF_PARAM_GOLDEN_WRITE") == "1" {
		b, _ := json.MarshalIndent(got, "", " ")
		_ = os.WriteFile(golden, b, 0o644)
		return
	}
	raw, err := os.ReadFile(golden)
	if err != nil {
		rep.BrokenHarness("no golden table: %v", err)
		return
	}
	want := map[string]string{}
	_ = json.Unmarshal(raw, &want)
	for tuple, w := range want {
		if g, ok := got[tuple]; ok && g != w {
			rep.Violate("C20 azblobproxy wire name differs from the names 2.x releases use", fmt.Sprintf("%s: %q, earlier releases: %q", tuple, g, w), nil)
		}
	}
	rep.Sample(map[string]interface{}{"tuples": len(got), "example": got["v2=true|team/cache|cas|"+hashes[0]]})
}

type vfRSC struct{ *strings.Reader }

func (vfRSC) Close() error { return nil }
