package azblobproxy

// C12 through the real Azure backend code: an azBlobCache whose container
// client (the real azblob SDK) talks to a local, functional fake of the Blob
// REST endpoint (Put Blob, Get Blob with ranges, Get Blob Properties), behind
// a real disk cache. Write-through must make a fresh peer recover the
// identical entry; a fault layer then answers 404 / 403, cuts the response at
// EVERY byte offset of the stored object, or makes the stored object's own
// header lie about the logical size (with a short and with a 4 MiB body): the
// read must be a miss or an error or the exact content, nothing wrong may be
// cached, and a second identical round must not need more connections than
// the first (the server-side count of requests still being answered returns
// to zero).

import (
	"bytes"
	"context"
	"encoding/binary"
	"fmt"
	"io"
	"net/http"
	"net/http/httptest"
	"os"
	"strconv"
	"strings"
	gosync "sync"
	goatomic "sync/atomic"
	"testing"
	"time"

	"github.com/Azure/azure-sdk-for-go/sdk/azcore"
	"github.com/Azure/azure-sdk-for-go/sdk/azcore/policy"
	"github.com/Azure/azure-sdk-for-go/sdk/storage/azblob/container"

	"github.com/buchgr/bazel-remote/v2/cache"
	"github.com/buchgr/bazel-remote/v2/cache/disk"
	"github.com/buchgr/bazel-remote/v2/utils/backendproxy"
	"github.com/buchgr/bazel-remote/v2/verifdrv/vlib"
)

type vfAzStore struct {
	mu      gosync.Mutex
	obj     map[string][]byte
	active  goatomic.Int64 // requests being answered right now
	fault   string         // "", "status", "cut", "header"
	status  int
	cutAt   int
	hdrSize int64
	pad     int
	gets    int
}

func (s *vfAzStore) set(fault string, status, cut int, hdr int64, pad int) {
	s.mu.Lock()
	s.fault, s.status, s.cutAt, s.hdrSize, s.pad = fault, status, cut, hdr, pad
	s.mu.Unlock()
}

func (s *vfAzStore) ServeHTTP(w http.ResponseWriter, r *http.Request) {
	s.active.Add(1)
	defer s.active.Add(-1)
	body, _ := io.ReadAll(r.Body)
	s.mu.Lock()
	fault, status, cut, hdr, pad := s.fault, s.status, s.cutAt, s.hdrSize, s.pad
	if r.Method == http.MethodGet {
		s.gets++
	}
	s.mu.Unlock()
	notFound := func() {
		w.Header().Set("x-ms-error-code", "BlobNotFound")
		w.WriteHeader(404)
	}
	switch r.Method {
	case http.MethodPut:
		if r.URL.RawQuery != "" { // block lists etc.: not used for these sizes
			w.WriteHeader(400)
			return
		}
		s.mu.Lock()
		s.obj[r.URL.Path] = body
		s.mu.Unlock()
		w.Header().Set("ETag", `"0x1"`)
		w.Header().Set("Last-Modified", "Mon, 02 Jan 2006 15:04:05 GMT")
		w.WriteHeader(201)
	case http.MethodHead, http.MethodGet:
		s.mu.Lock()
		b, ok := s.obj[r.URL.Path]
		s.mu.Unlock()
		if !ok {
			notFound()
			return
		}
		if r.Method == http.MethodGet && fault == "status" {
			if status == 404 {
				notFound()
			} else {
				w.Header().Set("x-ms-error-code", "AuthorizationFailure")
				w.WriteHeader(status)
			}
			return
		}
		if r.Method == http.MethodGet && fault == "header" && len(b) >= 16 {
			b = append([]byte(nil), b...)
			binary.LittleEndian.PutUint64(b[8:16], uint64(hdr))
			b = append(b, make([]byte, pad)...)
		}
		total := len(b)
		from, to := 0, total
		code := 200
		rng := r.Header.Get("x-ms-range")
		if rng == "" {
			rng = r.Header.Get("Range")
		}
		if strings.HasPrefix(rng, "bytes=") {
			parts := strings.SplitN(strings.TrimPrefix(rng, "bytes="), "-", 2)
			if a, err := strconv.Atoi(parts[0]); err == nil && a <= total {
				from = a
				if len(parts) == 2 && parts[1] != "" {
					if e, err := strconv.Atoi(parts[1]); err == nil && e+1 <= total {
						to = e + 1
					}
				}
				code = 206
				w.Header().Set("Content-Range", fmt.Sprintf("bytes %d-%d/%d", from, to-1, total))
			}
		}
		w.Header().Set("x-ms-blob-type", "BlockBlob")
		w.Header().Set("ETag", `"0x1"`)
		w.Header().Set("Last-Modified", "Mon, 02 Jan 2006 15:04:05 GMT")
		w.Header().Set("Content-Type", "application/octet-stream")
		w.Header().Set("Content-Length", fmt.Sprint(to-from))
		w.WriteHeader(code)
		if r.Method == http.MethodHead {
			return
		}
		out := b[from:to]
		if fault == "cut" && cut < len(out) {
			_, _ = w.Write(out[:cut])
			if hj, ok := w.(http.Hijacker); ok {
				if c, bufrw, err := hj.Hijack(); err == nil {
					_ = bufrw.Flush()
					_ = c.Close()
				}
			}
			return
		}
		_, _ = w.Write(out)
	default:
		w.WriteHeader(405)
	}
}

func vfAzRead(c disk.Cache, kind cache.EntryKind, hash string, size int64) (data []byte, got int64, hit bool, err error) {
	rc, sz, err := c.Get(context.Background(), kind, hash, size, 0)
	if rc == nil {
		return nil, sz, false, err
	}
	data, rerr := io.ReadAll(rc)
	_ = rc.Close()
	if err == nil {
		err = rerr
	}
	return data, sz, true, err
}

func TestVfC12Az(t *testing.T) {
	mode := vlib.Param("MODE", "zstd")
	rep := vlib.NewReport("C12", "E3-azblob:"+mode)
	defer rep.Write()
	store := &vfAzStore{obj: map[string][]byte{}}
	srv := httptest.NewServer(store)
	defer func() {
		srv.CloseClientConnections()
		srv.Close()
	}()
	tr := &http.Transport{MaxIdleConns: 4, MaxIdleConnsPerHost: 4}
	cc, err := container.NewClientWithNoCredential(srv.URL+"/thecontainer", &container.ClientOptions{
		ClientOptions: azcore.ClientOptions{Transport: &http.Client{Transport: tr}, Retry: policy.RetryOptions{MaxRetries: -1}, InsecureAllowCredentialWithHTTP: true}})
	if err != nil {
		rep.BrokenHarness("container client: %v", err)
		return
	}
	mk := func(uploaders int) cache.Proxy {
		c := &azBlobCache{containerClient: cc, storageAccount: "acct", container: "thecontainer", prefix: "pfx", v2mode: mode == "zstd",
			accessLogger: vlib.SilentLogger(), errorLogger: vlib.SilentLogger()}
		if c.v2mode {
			c.objectKey = func(hash string, kind cache.EntryKind) string { return objectKeyV2(c.prefix, hash, kind) }
		} else {
			c.objectKey = func(hash string, kind cache.EntryKind) string { return objectKeyV1(c.prefix, hash, kind) }
		}
		c.uploadQueue = backendproxy.StartUploaders(c, uploaders, 64)
		return c
	}
	scratch := os.Getenv("VERIF_SCRATCH")
	ndir := 0
	newDisk := func() (disk.Cache, string) {
		ndir++
		dir, err := os.MkdirTemp(scratch, fmt.Sprintf("az-%s-%d-", mode, ndir))
		if err != nil {
			panic(err)
		}
		c, err := disk.New(dir, 64<<20, disk.WithStorageMode(mode), disk.WithProxyBackend(mk(2)), disk.WithAccessLogger(vlib.SilentLogger()))
		if err != nil {
			panic(err)
		}
		return c, dir
	}
	waitFor := func(cond func() bool) bool {
		deadline := time.Now().Add(20 * time.Second)
		for time.Now().Before(deadline) {
			if cond() {
				return true
			}
			time.Sleep(2 * time.Millisecond)
		}
		return false
	}
	pathOf := func(hash string) string {
		store.mu.Lock()
		defer store.mu.Unlock()
		for p := range store.obj {
			if strings.HasSuffix(p, "/"+hash) {
				return p
			}
		}
		return ""
	}

	type obj struct {
		kind cache.EntryKind
		hash string
		data []byte
		name string
	}
	objs := []obj{
		{cache.CAS, "", vlib.Bytes("c12az/small", 180, true), "cas-180"},
		{cache.CAS, "", vlib.Bytes("c12az/big", 1<<20+1, false), "cas-1MiB+1"},
		{cache.AC, vlib.Sha([]byte("c12az/ac")), []byte{0x20, 0x07}, "ac"},
	}
	for i := range objs {
		if objs[i].kind == cache.CAS {
			objs[i].hash = vlib.Sha(objs[i].data)
		}
	}

	// ---- write-through, then a fresh peer reads it back ----
	a, adir := newDisk()
	defer os.RemoveAll(adir)
	for _, o := range objs {
		rep.Eval()
		id := fmt.Sprintf("azblob mode=%s %s", mode, o.name)
		if err := a.Put(context.Background(), o.kind, o.hash, int64(len(o.data)), bytes.NewReader(o.data)); err != nil {
			rep.Violate("C12 azblob upload failed", fmt.Sprintf("%s: %v", id, err), nil)
			continue
		}
		if !waitFor(func() bool { return pathOf(o.hash) != "" }) {
			rep.Violate("C12 azblob accepted upload did not reach the backend", id, nil)
			continue
		}
		peer, pdir := newDisk()
		for _, known := range []bool{true, false} {
			rep.Eval()
			size := int64(-1)
			if known {
				size = int64(len(o.data))
			}
			got, sz, hit, err := vfAzRead(peer, o.kind, o.hash, size)
			if !hit || err != nil || !bytes.Equal(got, o.data) || sz != int64(len(o.data)) {
				rep.Violate(fmt.Sprintf("C12 azblob peer does not recover the identical entry (%s, size known=%v)", o.kind, known),
					fmt.Sprintf("%s: hit=%v err=%v %d bytes (want %d) size %d", id, hit, err, len(got), len(o.data), sz), nil)
			} else {
				rep.Nontrivial(id + fmt.Sprint(known))
			}
		}
		// existence: an absent key is absent, the stored one present
		rep.Eval()
		if ok, _ := peer.Contains(context.Background(), o.kind, vlib.Sha([]byte("absent"+o.name)), -1); ok {
			rep.Violate("C12 azblob absent entry reported present", id, nil)
		} else {
			rep.Nontrivial(id + "absent")
		}
		os.RemoveAll(pdir)
	}

	// ---- faults on the download ----
	for _, o := range []obj{objs[0], objs[2]} {
		p := pathOf(o.hash)
		if p == "" {
			rep.BrokenHarness("backend does not hold %s", o.name)
			return
		}
		n := len(store.obj[p])
		type ft struct {
			name, fault string
			status, cut int
			hdr         int64
			pad         int
		}
		faults := []ft{{name: "status-404", fault: "status", status: 404}, {name: "status-403", fault: "status", status: 403}}
		for k := 0; k < n; k++ {
			faults = append(faults, ft{name: fmt.Sprintf("cut-at-%d", k), fault: "cut", cut: k})
		}
		if mode == "zstd" && o.kind == cache.CAS {
			for _, hs := range []int64{0, -1, int64(len(o.data)) + 1, int64(len(o.data)) - 1} {
				for _, pad := range []int{0, 4 << 20} {
					faults = append(faults, ft{name: fmt.Sprintf("header-size-field=%d-body+%d", hs, pad), fault: "header", hdr: hs, pad: pad})
				}
			}
		}
		front, fdir := newDisk()
		for round := 0; round < 2; round++ {
			for _, f := range faults {
				for _, known := range []bool{true, false} {
					rep.Eval()
					size := int64(-1)
					if known {
						size = int64(len(o.data))
					}
					id := fmt.Sprintf("azblob mode=%s %s size_known=%v fault=%s", mode, o.name, known, f.name)
					cls := fmt.Sprintf("C12 azblob mode=%s kind=%s fault=%s", mode, o.kind, strings.Split(f.name, "-at-")[0])
					store.set(f.fault, f.status, f.cut, f.hdr, f.pad)
					got, sz, hit, err := vfAzRead(front, o.kind, o.hash, size)
					store.set("", 0, 0, 0, 0)
					contentTrusted := f.fault != "header"
					if hit && err == nil && contentTrusted && (!bytes.Equal(got, o.data) || sz != int64(len(o.data))) {
						rep.Violate(cls+" hit with wrong, short or mis-sized content", fmt.Sprintf("%s: %d bytes (entry has %d), size %d", id, len(got), len(o.data), sz), nil)
					}
					// whatever is cached locally now must be exact; then drop it again
					for _, e := range disk.VfSnapshot(front).Entries {
						if strings.HasSuffix(e.Key, o.hash) {
							got2, sz2, hit2, err2 := vfAzRead(front, o.kind, o.hash, -1)
							if contentTrusted && (!hit2 || err2 != nil || !bytes.Equal(got2, o.data) || sz2 != int64(len(o.data))) {
								rep.Violate(cls+" poisoned local entry", fmt.Sprintf("%s: locally cached entry reads hit=%v err=%v %d bytes size %d", id, hit2, err2, len(got2), sz2), nil)
							}
							disk.VfForget(front, e.Key)
						}
					}
					rep.Nontrivial(id)
					rep.Outcome(fmt.Sprintf("%s hit=%v err=%v", cls, hit, err != nil))
				}
			}
			// state-based leak oracle: every request the backend started answering has been
			// completed or abandoned by the client (a leaked body keeps its handler in Write)
			if !waitFor(func() bool { return store.active.Load() == 0 }) {
				rep.Violate("C12 azblob connections left open after backend faults", fmt.Sprintf("azblob mode=%s %s: round %d of %d faulty fetches done, the backend is still answering %d requests whose bodies nobody reads or closes", mode, o.name, round+1, 2*len(faults), store.active.Load()), nil)
				srv.CloseClientConnections()
			}
		}
		os.RemoveAll(fdir)
	}
	rep.Sample(map[string]interface{}{"mode": mode, "objects": []string{objs[0].name, objs[1].name, objs[2].name}, "backend_gets": store.gets})
}
