package disk

// E5 conformance: every trail of the Promela model of the fail-fast join
// (models/findmissing.pml, ENUM mode) is replayed against the real
// findMissingCasBlobsInternal + containsWorker: the driver holds the main
// request and the workers at their hooks and at the backend call and releases
// them in the trail's order; the implementation's answer must be one the
// (repaired) model allows for that order.

import (
	"context"
	"encoding/json"
	"fmt"
	"io"
	"log"
	"os"
	"path/filepath"
	"strings"
	"sync"
	"testing"
	"time"

	"github.com/buchgr/bazel-remote/v2/cache"
	pb "github.com/buchgr/bazel-remote/v2/genproto/build/bazel/remote/execution/v2"
	"github.com/buchgr/bazel-remote/v2/utils/verifhook"
	"github.com/buchgr/bazel-remote/v2/verifdrv/vlib"
)

type vf5Trail struct {
	Result   int        `json:"result"`
	Both     int        `json:"both"`
	FailFast int        `json:"failfast"`
	Kinds    []int      `json:"kinds"`
	Events   [][]string `json:"events"`
	Trail    int        `json:"trail"`
}

type vf5Gates struct {
	mu      sync.Mutex
	arrived map[string]chan struct{}
	release map[string]chan struct{}
}

func newVf5Gates() *vf5Gates {
	return &vf5Gates{arrived: map[string]chan struct{}{}, release: map[string]chan struct{}{}}
}

func (g *vf5Gates) chans(name string) (chan struct{}, chan struct{}) {
	g.mu.Lock()
	defer g.mu.Unlock()
	if g.arrived[name] == nil {
		g.arrived[name] = make(chan struct{})
		g.release[name] = make(chan struct{})
	}
	return g.arrived[name], g.release[name]
}

// at is called by the code under test.
func (g *vf5Gates) at(name string) {
	a, r := g.chans(name)
	close(a)
	<-r
}

// waitArrived waits until the code is parked at name.
func (g *vf5Gates) waitArrived(name string) error {
	a, _ := g.chans(name)
	select {
	case <-a:
		return nil
	case <-time.After(10 * time.Second):
		return fmt.Errorf("the implementation never reached %q", name)
	}
}

// pass waits until the code arrived at name and lets it continue.
func (g *vf5Gates) pass(name string) error {
	a, r := g.chans(name)
	select {
	case <-a:
	case <-time.After(10 * time.Second):
		return fmt.Errorf("the implementation never reached %q", name)
	}
	close(r)
	return nil
}

func TestVfE5Replay(t *testing.T) {
	log.SetOutput(io.Discard)
	rep := vlib.NewReport("C06", "E5-replay")
	defer rep.Write()
	raw, err := os.ReadFile(vlib.Param("TRAILS", ""))
	if err != nil {
		rep.BrokenHarness("no trails: %v", err)
		return
	}
	var trails []vf5Trail
	if err := json.Unmarshal(raw, &trails); err != nil {
		rep.BrokenHarness("trails: %v", err)
		return
	}
	dir := filepath.Join(os.Getenv("VERIF_SCRATCH"), "cache")
	repeats := 1
	saved := verifhook.StepFn
	defer func() { verifhook.StepFn = saved }()
	for _, tr := range trails {
		n := repeats
		if tr.Both == 1 {
			n = 25 // the implementation's select is random when both cases are ready
		}
		outcomes := map[string]int{}
		for r := 0; r < n; r++ {
			res, err := vf5Replay(dir, tr)
			if err != nil {
				rep.BrokenHarness("trail %d (%v): %v", tr.Trail, tr.Events, err)
				break
			}
			outcomes[res]++
		}
		rep.Eval()
		// what the repaired model allows for this order
		want := "nil"
		if tr.Result == 2 {
			want = "missing"
		}
		absent := false
		for _, k := range tr.Kinds {
			if k == 1 {
				absent = true
			}
		}
		if tr.FailFast == 1 && absent && tr.Both == 1 {
			want = "missing" // both select cases ready: the flag decides
		}
		var evs []string
		for _, e := range tr.Events {
			evs = append(evs, strings.Join(e, " "))
		}
		id := fmt.Sprintf("trail %d failfast=%d kinds=%v order=[%s]: implementation answered %v, model allows %q", tr.Trail, tr.FailFast, tr.Kinds, strings.Join(evs, "; "), outcomes, want)
		bad := false
		for o := range outcomes {
			if !strings.HasPrefix(o, want) {
				bad = true
			}
		}
		if bad {
			if tr.FailFast == 1 && absent && outcomes["nil"] > 0 {
				rep.Violate("C06 fail-fast join answers 'nothing missing' although a blob is absent", id+" (the final select finds both the cancelled context and the wait channel ready and picks at random)",
					map[string]interface{}{"engine": "E5", "trail": tr.Trail, "events": evs, "kinds": tr.Kinds, "outcomes": outcomes})
			} else {
				rep.Violate("C06 E5 implementation answer outside the model", id, map[string]interface{}{"engine": "E5", "trail": tr.Trail, "events": evs, "outcomes": outcomes})
			}
			continue
		}
		rep.TracesValid++
		rep.Nontrivial(fmt.Sprintf("%d/%v/%s", tr.FailFast, tr.Kinds, strings.Join(evs, ";")))
		if tr.Trail%17 == 1 {
			rep.Sample(map[string]interface{}{"trail": tr.Trail, "events": evs, "kinds": tr.Kinds, "failfast": tr.FailFast, "implementation": outcomes, "model": want})
		}
	}
	rep.States = int64(len(trails))
	rep.Transitions = int64(len(trails))
}

var vf5Ctr int
var curGate *vf5Gates

// vf5Replay runs one trail; returns "nil", "missing" or "cancelled" plus the slot pattern for non-fail-fast.
func vf5Replay(dir string, tr vf5Trail) (string, error) {
	n := len(tr.Kinds)
	px := vlib.NewFakeProxy()
	c := &diskCache{dir: dir, proxy: px, accessLogger: vlib.SilentLogger(), maxProxyBlobSize: 1 << 40}
	c.lru = NewSizedLRU(1<<30, func(string, lruItem) {}, 8)
	c.containsQueue = make(chan proxyCheck, 16)
	for i := 0; i < n+1; i++ {
		go c.containsWorker()
	}
	defer close(c.containsQueue)
	digests := make([]*pb.Digest, n)
	idx := map[string]int{}
	for i := 0; i < n; i++ {
		vf5Ctr++
		d := vlib.Bytes(fmt.Sprintf("e5/%d/%d", vf5Ctr, i), 32, false)
		h := vlib.Sha(d)
		digests[i] = &pb.Digest{Hash: h, SizeBytes: 32}
		idx[h] = i
		if tr.Kinds[i] == 0 {
			px.Set(cache.CAS, h, d, 32)
		}
	}
	g := newVf5Gates()
	curGate = g
	var ctxMu sync.Mutex
	var innerCtx context.Context
	px.StepFn = func(op, detail string) {
		if op == "proxy.contains" {
			for h, i := range idx {
				if strings.HasPrefix(h, detail) {
					g.at(fmt.Sprintf("ans:%d", i))
				}
			}
		}
	}
	verifhook.StepFn = func(op, detail string) {
		switch op {
		case "fm.beforepoll":
			if i, ok := idx[detail]; ok {
				g.at(fmt.Sprintf("poll:%d", i))
			}
		case "fm.worker":
			if i, ok := idx[detail]; ok {
				g.at(fmt.Sprintf("pre:%d", i))
			}
		case "fm.beforeselect":
			if curGate == g {
				g.at("sel")
			}
		}
	}
	_ = ctxMu
	_ = innerCtx
	type result struct {
		err   error
		slots []bool
	}
	done := make(chan result, 1)
	work := append([]*pb.Digest(nil), digests...)
	go func() {
		err := c.findMissingCasBlobsInternal(context.Background(), work, tr.FailFast == 1)
		sl := make([]bool, n)
		for i := range work {
			sl[i] = work[i] == nil
		}
		done <- result{err, sl}
	}()
	settle := func() { time.Sleep(1500 * time.Microsecond) }
	for _, e := range tr.Events {
		var err error
		switch e[0] {
		case "poll":
			err = g.pass("poll:" + e[1])
			if err == nil {
				// the request has passed its poll and enqueued the check once
				// a worker is parked at its pre-check for this digest
				err = g.waitArrived("pre:" + e[1])
			}
		case "pollcancel":
			err = g.pass("poll:" + e[1])
		case "pre":
			err = g.pass("pre:" + e[1])
			settle()
		case "ans":
			err = g.pass("ans:" + e[1])
			settle()
		case "done", "close":
			settle()
		case "select":
			err = g.pass("sel")
		}
		if err != nil {
			return "", err
		}
	}
	select {
	case r := <-done:
		// let parked goroutines (workers of requests never answered) go
		g.mu.Lock()
		for name, ch := range g.release {
			select {
			case <-ch:
			default:
				close(ch)
			}
			_ = name
		}
		g.mu.Unlock()
		switch {
		case r.err == nil:
			if tr.FailFast == 0 {
				for i, k := range tr.Kinds {
					if r.slots[i] != (k == 0) {
						return fmt.Sprintf("nil-but-slot-%d-wrong", i), nil
					}
				}
			}
			return "nil", nil
		case r.err == errMissingBlob:
			return "missing", nil
		default:
			return "cancelled", nil
		}
	case <-time.After(10 * time.Second):
		return "", fmt.Errorf("the request did not return after the last trail event")
	}
}
