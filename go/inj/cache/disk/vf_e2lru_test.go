package disk

// E2 (LRU level): explicit-state breadth-first search over operation
// sequences on the real SizedLRU. Every transition is executed on the real
// structure (successor = replay of the shortest path on a fresh instance +
// one operation), states are deduplicated by their exact canonical form, and
// the oracles are evaluated on every transition:
//   C03  accounting equation, bijection of map and list, <= max
//   C05  victims are exactly the minimal least-recently-used tail
//   C17  admission under max_size_hard_limit; refused => nothing changed

import (
	"fmt"
	"net/http"
	"sort"
	"strconv"
	"strings"
	"testing"
	"time"

	"github.com/buchgr/bazel-remote/v2/cache"
	"github.com/buchgr/bazel-remote/v2/verifdrv/vlib"
)

type vfLop struct {
	op   string // add get reserve unreserve remove evstep
	key  string
	size int64 // logical size (add) / amount (reserve, unreserve)
	disk int64
}

func (o vfLop) String() string {
	switch o.op {
	case "add":
		return fmt.Sprintf("add(%s,%d,%d)", o.key, o.size, o.disk)
	case "get", "remove":
		return o.op + "(" + o.key + ")"
	case "reserve", "unreserve":
		return fmt.Sprintf("%s(%d)", o.op, o.size)
	}
	return o.op
}

// vfLSys is one real SizedLRU plus what the harness must remember about it.
type vfLSys struct {
	lru         SizedLRU
	outstanding []int64 // reservations granted and not yet returned
	removed     []string
	evictedLog  []string
}

func vfNewLSys(max, hard int64) *vfLSys {
	s := &vfLSys{}
	s.lru = NewSizedLRU(max, func(key string, value lruItem) { s.removed = append(s.removed, key) }, 8)
	s.lru.maxSizeHardLimit = hard
	return s
}

type vfLView struct {
	order    []string // LRU -> MRU
	items    map[string]lruItem
	cur      int64
	res      int64
	unc      int64
	qBytes   int64
	queue    []string
	problems []string
}

func (s *vfLSys) view() vfLView {
	l := &s.lru
	v := vfLView{items: map[string]lruItem{}, cur: l.TotalSize(), res: l.ReservedSize(), unc: l.UncompressedSize(), qBytes: l.queuedEvictionsSize.Load()}
	seen := map[string]bool{}
	for e := l.ll.Back(); e != nil; e = e.Prev() {
		kv := e.Value.(*entry)
		v.order = append(v.order, kv.key)
		v.items[kv.key] = kv.value
		if seen[kv.key] {
			v.problems = append(v.problems, "key twice in list: "+kv.key)
		}
		seen[kv.key] = true
		if me, ok := l.cache[kv.key]; !ok || me != e {
			v.problems = append(v.problems, "list element not (correctly) mapped: "+kv.key)
		}
	}
	if len(l.cache) != len(v.order) {
		v.problems = append(v.problems, fmt.Sprintf("map has %d entries, list %d", len(l.cache), len(v.order)))
	}
	if l.Len() != len(l.cache) {
		v.problems = append(v.problems, "Len() != map size")
	}
	select {
	case q := <-l.queuedEvictionsChan:
		for _, kv := range q {
			v.queue = append(v.queue, fmt.Sprintf("%s:%d", kv.key, kv.value.sizeOnDisk))
		}
		l.queuedEvictionsChan <- q
	default:
	}
	return v
}

func (v vfLView) key(out []int64) string {
	var b strings.Builder
	for _, k := range v.order {
		it := v.items[k]
		fmt.Fprintf(&b, "%s:%d:%d,", k, it.size, it.sizeOnDisk)
	}
	fmt.Fprintf(&b, "|%d|%d|%d|%d|%s|", v.cur, v.res, v.unc, v.qBytes, strings.Join(v.queue, ","))
	o := append([]int64(nil), out...)
	sort.Slice(o, func(i, j int) bool { return o[i] < o[j] })
	for _, x := range o {
		fmt.Fprintf(&b, "%d,", x)
	}
	return b.String()
}

// apply runs op on the real structure and returns a result string.
func (s *vfLSys) apply(o vfLop) string {
	switch o.op {
	case "add":
		ok := s.lru.Add(o.key, lruItem{size: o.size, sizeOnDisk: o.disk, random: "r"})
		return strconv.FormatBool(ok)
	case "get":
		_, e := s.lru.Get(o.key)
		return strconv.FormatBool(e != nil)
	case "remove":
		s.lru.RemoveKey(o.key)
		return "ok"
	case "reserve":
		err := s.lru.Reserve(o.size)
		if err == nil {
			s.outstanding = append(s.outstanding, o.size)
			return "ok"
		}
		if ce, ok := err.(*cache.Error); ok {
			return strconv.Itoa(ce.Code)
		}
		return "err"
	case "unreserve":
		err := s.lru.Unreserve(o.size)
		for i, x := range s.outstanding {
			if x == o.size {
				s.outstanding = append(s.outstanding[:i:i], s.outstanding[i+1:]...)
				break
			}
		}
		if err != nil {
			return "err"
		}
		return "ok"
	case "evstep":
		select {
		case q := <-s.lru.queuedEvictionsChan:
			for _, kv := range q {
				s.lru.onEvict(kv.key, kv.value)
				s.lru.queuedEvictionsSize.Add(-kv.value.sizeOnDisk)
			}
		default:
		}
		return "ok"
	}
	panic("bad op")
}

// vfLOracle checks one transition pre --op--> post.
func vfLOracle(max, hard int64, pre, post vfLView, o vfLop, res string, outstanding []int64) []string {
	var bad []string
	bad = append(bad, post.problems...)
	// ---- C03 ----
	var sum, usum, rsum int64
	for _, k := range post.order {
		sum += vfRound(post.items[k].sizeOnDisk)
		usum += vfRound(post.items[k].size)
	}
	for _, x := range outstanding {
		rsum += x
	}
	if post.res != rsum {
		bad = append(bad, fmt.Sprintf("C03 reserved %d != outstanding reservations %d", post.res, rsum))
	}
	if post.cur != sum+post.res {
		bad = append(bad, fmt.Sprintf("C03 accounted %d != entries %d + reserved %d", post.cur, sum, post.res))
	}
	if post.unc != usum {
		bad = append(bad, fmt.Sprintf("C03 logical total %d != entries %d", post.unc, usum))
	}
	if post.cur > max {
		bad = append(bad, fmt.Sprintf("C03 accounted %d > max %d", post.cur, max))
	}
	// queued bytes == sum of queued entries
	var qsum int64
	for _, q := range post.queue {
		n, _ := strconv.ParseInt(q[strings.LastIndexByte(q, ':')+1:], 10, 64)
		qsum += n
	}
	if qsum != post.qBytes {
		bad = append(bad, fmt.Sprintf("C17 backlog counter %d != bytes of queued entries %d", post.qBytes, qsum))
	}

	// ---- victims ----
	var victims []string
	for _, k := range pre.order {
		if _, still := post.items[k]; !still {
			victims = append(victims, k)
		}
	}
	cand := []string{} // LRU -> MRU, without the key being written
	for _, k := range pre.order {
		if !(o.op == "add" && k == o.key) {
			cand = append(cand, k)
		}
	}
	tailOf := func(n int) []string { return cand[:n] }
	switch o.op {
	case "get":
		if len(victims) != 0 {
			bad = append(bad, "C05 a lookup evicted "+strings.Join(victims, ","))
		}
		if _, had := pre.items[o.key]; had {
			if len(post.order) == 0 || post.order[len(post.order)-1] != o.key {
				bad = append(bad, "C05 a hit did not make "+o.key+" most recently used")
			}
			if res != "true" {
				bad = append(bad, "lookup of present key missed")
			}
		} else if res != "false" {
			bad = append(bad, "lookup of absent key hit")
		}
	case "remove":
		want := []string{}
		if _, had := pre.items[o.key]; had {
			want = append(want, o.key)
		}
		if strings.Join(victims, ",") != strings.Join(want, ",") {
			bad = append(bad, fmt.Sprintf("remove(%s) removed %v", o.key, victims))
		}
	case "unreserve", "evstep":
		if len(victims) != 0 {
			bad = append(bad, "C05 "+o.op+" evicted "+strings.Join(victims, ","))
		}
		if o.op == "evstep" && (post.qBytes != 0 || len(post.queue) != 0) {
			bad = append(bad, "remover step left a backlog")
		}
	case "reserve":
		// admission (C17 and the reservation rules)
		want := "ok"
		switch {
		case o.size > max:
			want = strconv.Itoa(http.StatusBadRequest)
		case o.size+pre.res > max:
			want = strconv.Itoa(http.StatusInsufficientStorage)
		case hard > 0 && pre.cur+pre.qBytes+o.size > hard:
			want = strconv.Itoa(http.StatusInsufficientStorage)
		}
		if res != want {
			bad = append(bad, fmt.Sprintf("C17 reserve(%d) with accounted=%d backlog=%d reserved=%d max=%d hard=%d answered %s, expected %s", o.size, pre.cur, pre.qBytes, pre.res, max, hard, res, want))
		}
		if res != "ok" {
			if len(victims) != 0 || post.cur != pre.cur || post.res != pre.res || post.qBytes != pre.qBytes {
				bad = append(bad, "C17 a refused reservation changed the cache: evicted "+strings.Join(victims, ","))
			}
			break
		}
		need := pre.cur + o.size - max
		bad = append(bad, vfMinimalTail(pre, cand, victims, need, tailOf)...)
	case "add":
		r := vfRound(o.disk)
		old, had := pre.items[o.key]
		delta := r
		if had {
			delta = r - vfRound(old.sizeOnDisk)
		}
		if res != "true" {
			if len(victims) != 0 || post.cur != pre.cur {
				bad = append(bad, "C05 a refused add changed the cache: evicted "+strings.Join(victims, ","))
			}
			// must only be refused when it cannot fit next to reservations
			if r <= max && pre.res+r <= max {
				bad = append(bad, fmt.Sprintf("C05 add of %d bytes refused although it fits next to reservations %d (max %d)", o.disk, pre.res, max))
			}
			break
		}
		if r > max {
			bad = append(bad, "C05 item larger than max_size accepted")
		}
		need := pre.cur + delta - max
		it, present := post.items[o.key]
		if !present {
			// accepted but evicted itself: only legitimate when it does not
			// fit next to the reservations.
			if pre.res+r <= max {
				bad = append(bad, fmt.Sprintf("C05 accepted item %s is not present afterwards although it fits (reserved %d)", o.key, pre.res))
			}
		} else {
			if it.size != o.size || it.sizeOnDisk != o.disk {
				bad = append(bad, "accepted item stored with other sizes")
			}
			if post.order[len(post.order)-1] != o.key {
				bad = append(bad, "C05 written key is not most recently used")
			}
			bad = append(bad, vfMinimalTail(pre, cand, victims, need, tailOf)...)
		}
	}
	return bad
}

// vfMinimalTail: victims must be exactly the shortest least-recently-used
// prefix of cand whose rounded on-disk sizes cover need.
func vfMinimalTail(pre vfLView, cand, victims []string, need int64, tailOf func(int) []string) []string {
	n := 0
	var freed int64
	for need > freed && n < len(cand) {
		freed += vfRound(pre.items[cand[n]].sizeOnDisk)
		n++
	}
	want := tailOf(n)
	if strings.Join(victims, ",") != strings.Join(want, ",") {
		return []string{fmt.Sprintf("C05 evicted [%s] but the minimal least-recently-used tail for %d missing bytes is [%s] (order LRU->MRU: %s)",
			strings.Join(victims, ","), need, strings.Join(want, ","), strings.Join(pre.order, ","))}
	}
	return nil
}

func vfLAlphabet(max int64) []vfLop {
	B := int64(BlockSize)
	var ops []vfLop
	type sz struct{ size, disk int64 }
	sizes := []sz{{1, 1}, {B, B}, {B + 1, B + 1}, {2 * B, 100}, {max - B, max - B}, {max + 1, max + 1}}
	for _, k := range []string{"a", "b", "c"} {
		for _, s := range sizes {
			ops = append(ops, vfLop{op: "add", key: k, size: s.size, disk: s.disk})
		}
		ops = append(ops, vfLop{op: "get", key: k})
	}
	ops = append(ops, vfLop{op: "remove", key: "a"})
	for _, s := range []int64{1, B, 2 * B, max, max + 1} {
		ops = append(ops, vfLop{op: "reserve", size: s})
	}
	ops = append(ops, vfLop{op: "evstep"})
	return ops
}

func TestVfE2LRU(t *testing.T) {
	prop := vlib.Param("PROPERTY", "C03")
	rep := vlib.NewReport(prop, "E2-lru:"+vlib.Param("CONFIG", ""))
	defer rep.Write()
	B := int64(BlockSize)
	maxBlocks, _ := strconv.Atoi(vlib.Param("MAXBLOCKS", "4"))
	hardExtra, _ := strconv.Atoi(vlib.Param("HARDEXTRA", "-1")) // -1: unset
	depth, _ := strconv.Atoi(vlib.Param("DEPTH", "4"))
	max := int64(maxBlocks) * B
	hard := int64(0)
	if hardExtra >= 0 {
		hard = max + int64(hardExtra)*B
	}
	filter := vlib.Param("ORACLE", "") // "", "C03", "C05", "C17": which findings this property reports
	alphabet := vfLAlphabet(max)
	deadline := vlib.Deadline()

	type node struct{ path []vfLop }
	build := func(path []vfLop) *vfLSys {
		s := vfNewLSys(max, hard)
		for _, o := range path {
			s.apply(o)
		}
		return s
	}
	seen := map[string]bool{}
	root := vfNewLSys(max, hard)
	seen[root.view().key(nil)] = true
	frontier := []node{{}}
	states, transitions := int64(1), int64(0)
	maxDepth := 0
	nontrivial := map[string]bool{}
	for d := 0; d < depth && len(frontier) > 0; d++ {
		var next []node
		for _, n := range frontier {
			if time.Now().After(deadline) {
				rep.Cap(fmt.Sprintf("time budget at depth %d", d))
				frontier = nil
				next = nil
				break
			}
			base := build(n.path)
			outs := append([]int64(nil), base.outstanding...)
			ops := append([]vfLop(nil), alphabet...)
			seenAmt := map[int64]bool{}
			for _, x := range outs {
				if !seenAmt[x] {
					seenAmt[x] = true
					ops = append(ops, vfLop{op: "unreserve", size: x})
				}
			}
			for _, o := range ops {
				s := build(n.path)
				pre := s.view()
				res := s.apply(o)
				post := s.view()
				transitions++
				rep.Eval()
				bad := vfLOracle(max, hard, pre, post, o, res, s.outstanding)
				for _, b := range bad {
					tag := "C03"
					if len(b) > 4 && b[0] == 'C' && b[3] == ' ' {
						tag = b[:3]
					}
					if filter != "" && tag != filter {
						continue
					}
					path := append(append([]vfLop(nil), n.path...), o)
					var ps []string
					for _, p := range path {
						ps = append(ps, p.String())
					}
					rep.Violate(prop+" lru "+vfGeneric(b), fmt.Sprintf("max=%d hard=%d after %s: %s", max, hard, strings.Join(ps, " ; "), b),
						map[string]interface{}{"engine": "E2-lru", "max": max, "hard": hard, "path": ps})
				}
				if len(pre.order) != len(post.order) || res == "507" || res == "400" || res == "false" {
					nontrivial[fmt.Sprintf("%s->%s:%s", strings.Join(pre.order, ""), strings.Join(post.order, ""), res)] = true
				}
				k := post.key(s.outstanding)
				if !seen[k] {
					seen[k] = true
					states++
					next = append(next, node{path: append(append([]vfLop(nil), n.path...), o)})
					if d+1 > maxDepth {
						maxDepth = d + 1
					}
					if states == 5 || states == 500 || states == 5000 {
						var ps []string
						for _, p := range next[len(next)-1].path {
							ps = append(ps, p.String())
						}
						rep.Sample(map[string]interface{}{"engine": "E2-lru", "max": max, "hard": hard, "path": ps, "state": k})
					}
				}
			}
		}
		frontier = next
	}
	rep.States = states
	rep.Transitions = transitions
	rep.TracesValid = transitions // every transition ran on the real SizedLRU
	for k := range nontrivial {
		rep.Nontrivial(k)
	}
	rep.Extra["depth"] = depth
	rep.Extra["max_depth_reached"] = maxDepth
	rep.Extra["frontier_left"] = len(frontier)
	rep.Extra["alphabet"] = len(alphabet)
	rep.Outcome(fmt.Sprintf("max=%d hard=%d depth=%d states=%d", max, hard, depth, states))
}
