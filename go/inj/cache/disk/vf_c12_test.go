package disk

// C12 (engine E3, seam level): every deviation of a backend at every stage
// and every byte offset of its stream, against the real disk cache through a
// scriptable cache.Proxy. 0 deviations, then every single deviation, then
// (thorough) pairs: the second read is itself faulty.

import (
	"bytes"
	"context"
	"fmt"
	"io"
	"log"
	"os"
	"path/filepath"
	"strings"
	"testing"
	"time"

	"github.com/buchgr/bazel-remote/v2/cache"
	"github.com/buchgr/bazel-remote/v2/verifdrv/vlib"
)

type vf12Obj struct {
	kind    cache.EntryKind
	hash    string
	logical []byte
	stored  []byte
}

type vf12Fault struct {
	name       string
	class      string
	get        *vlib.GetFault
	cont       *vlib.ContainsFault
	ctxCancel  bool
	oversizeBy int64 // >0: configure max_proxy_blob_size = logical size - oversizeBy
}

func vf12Faults(stored []byte, logical int64, maxProxy int64, thorough bool) []vf12Fault {
	i64 := func(v int64) *int64 { return &v }
	fs := []vf12Fault{
		{name: "none", class: "none"},
		{name: "error-before-response", class: "error", get: &vlib.GetFault{Err: vlib.ErrBackend, CutAt: -1}},
		{name: "not-found", class: "not-found", get: &vlib.GetFault{NotFound: true, CutAt: -1}},
		{name: "nil-reader-with-size", class: "nil-reader", get: &vlib.GetFault{NilReader: true, CutAt: -1}},
		{name: "size+1", class: "size-metadata", get: &vlib.GetFault{SizeAnswer: i64(logical + 1), CutAt: -1}},
		{name: "size-1", class: "size-metadata", get: &vlib.GetFault{SizeAnswer: i64(logical - 1), CutAt: -1}},
		{name: "size-unknown", class: "size-metadata", get: &vlib.GetFault{SizeAnswer: i64(-1), CutAt: -1}},
		{name: "size-zero", class: "size-metadata", get: &vlib.GetFault{SizeAnswer: i64(0), CutAt: -1}},
		{name: "size-over-max-proxy-blob-size", class: "size-metadata", get: &vlib.GetFault{SizeAnswer: i64(maxProxy + 1), CutAt: -1}},
		{name: "one-byte-reads", class: "none", get: &vlib.GetFault{CutAt: -1, ChunkSize: 1}},
		// the object really is larger than max_proxy_blob_size (the cache is configured with a limit
		// one byte / half below its size): never served, never cached
		{name: "oversize-object-limit=size-1", class: "oversize", oversizeBy: 1},
		{name: "oversize-object-limit=size/2", class: "oversize", oversizeBy: logical - logical/2},
		{name: "context-cancelled-before", class: "cancel", ctxCancel: true},
	}
	for k := 0; k < len(stored); k++ {
		fs = append(fs, vf12Fault{name: fmt.Sprintf("stream-error-at-%d", k), class: "stream-error", get: &vlib.GetFault{CutAt: k, CutErr: vlib.ErrBackend}})
		fs = append(fs, vf12Fault{name: fmt.Sprintf("clean-eof-at-%d", k), class: "short-stream", get: &vlib.GetFault{CutAt: k}})
	}
	return fs
}

type vf12Res struct {
	class string // miss, error, hit, readerr
	data  []byte
	size  int64
	err   error
}

func vf12Read(cc Cache, o vf12Obj, size int64, zstd bool, cancelled bool) vf12Res {
	ctx := context.Background()
	if cancelled {
		c, cancel := context.WithCancel(ctx)
		cancel()
		ctx = c
	}
	var rc io.ReadCloser
	var sz int64
	var err error
	if zstd {
		rc, sz, err = cc.GetZstd(ctx, o.hash, size, 0)
	} else {
		rc, sz, err = cc.Get(ctx, o.kind, o.hash, size, 0)
	}
	if err != nil {
		if rc != nil {
			_ = rc.Close()
		}
		return vf12Res{class: "error", err: err}
	}
	if rc == nil {
		return vf12Res{class: "miss"}
	}
	data, rerr := io.ReadAll(rc)
	_ = rc.Close()
	if rerr == nil && zstd {
		data, rerr = vlib.ZstdDecodeAll(data)
	}
	if rerr != nil {
		return vf12Res{class: "readerr", data: data, size: sz, err: rerr}
	}
	return vf12Res{class: "hit", data: data, size: sz}
}

func TestVfC12(t *testing.T) {
	log.SetOutput(io.Discard)
	mode := vlib.Param("MODE", "zstd")
	rep := vlib.NewReport("C12", "E3-seam:"+mode)
	defer rep.Write()
	dir := filepath.Join(os.Getenv("VERIF_SCRATCH"), "cache")
	deadline := vlib.Deadline()
	shard, nshards := vlib.Shard()
	const maxProxy = 1 << 20
	mk := func(kind cache.EntryKind, tag string, n int) vf12Obj {
		d := vlib.Bytes("c12/"+tag, n, true)
		o := vf12Obj{kind: kind, logical: d, stored: d}
		if kind == cache.CAS {
			o.hash = vlib.Sha(d)
			if mode == "zstd" {
				o.stored = vlib.EncodeCasBlob(d, 1<<20, true)
			}
		} else {
			o.hash = vlib.Sha([]byte("key/" + tag))
		}
		return o
	}
	objs := []vf12Obj{mk(cache.CAS, "cas", 150), mk(cache.AC, "ac", 80), mk(cache.RAW, "raw", 60)}
	var hot []string
	for _, o := range objs {
		hot = append(hot, o.hash)
	}
	VfSetHot(hot...)
	vfCleanDir(dir)
	vfPrimeSkeleton(dir)
	cell := 0
	classes := map[string]int{}
	for _, o := range objs {
		faults := vf12Faults(o.stored, int64(len(o.logical)), maxProxy, vlib.Thorough())
		for _, known := range []bool{true, false} {
			for _, zstd := range []bool{false, true} {
				if zstd && o.kind != cache.CAS {
					continue
				}
				seconds := []vf12Fault{{name: "none", class: "none"}}
				if vlib.Thorough() {
					// pairs: the second read deviates too (one representative per class)
					seen := map[string]bool{}
					for _, f := range faults {
						if !seen[f.class] {
							seen[f.class] = true
							seconds = append(seconds, f)
						}
					}
				}
				for _, f1 := range faults {
					for _, f2 := range seconds {
						cell++
						if cell%nshards != shard {
							continue
						}
						if time.Now().After(deadline) {
							rep.Cap("time budget")
							return
						}
						vf12Cell(rep, dir, mode, o, known, zstd, f1, f2, maxProxy, classes)
					}
				}
			}
		}
	}
	// faithful backend, reads that start at an offset: the FIRST read goes through the backend,
	// the second is a local hit; both must deliver exactly [offset, n)
	if shard == 0 {
		for _, o := range objs {
			if o.kind != cache.CAS {
				continue
			}
			for _, zstd := range []bool{false, true} {
				for _, known := range []bool{true, false} {
					for _, off := range []int64{1, int64(len(o.logical)) / 2, int64(len(o.logical)) - 1} {
						vf12OffsetCell(rep, dir, mode, o, known, zstd, off, maxProxy)
					}
				}
			}
		}
	}
	for _, c := range []string{"stream-error", "short-stream", "size-metadata", "error", "not-found", "none"} {
		if classes[c] == 0 && nshards == 1 {
			rep.BrokenHarness("fault class %s never exercised", c)
		}
	}
}

func vf12Cell(rep *vlib.Report, dir, mode string, o vf12Obj, known, zstd bool, f1, f2 vf12Fault, maxProxy int64, classes map[string]int) {
	rep.Eval()
	classes[f1.class]++
	vfCleanHot(dir)
	if f1.oversizeBy > 0 {
		maxProxy = int64(len(o.logical)) - f1.oversizeBy
	}
	px := vlib.NewFakeProxy()
	cc, err := New(dir, 1<<20, WithStorageMode(mode), WithAccessLogger(vlib.SilentLogger()), WithProxyBackend(px), WithProxyMaxBlobSize(maxProxy))
	if err != nil {
		rep.BrokenHarness("disk.New: %v", err)
		return
	}
	defer func() { VfDrain(cc); VfShutdown(cc) }()
	px.Set(o.kind, o.hash, o.stored, int64(len(o.logical)))
	size := int64(-1)
	if known {
		size = int64(len(o.logical))
	}
	key := cache.LookupKey(o.kind, o.hash)
	id := fmt.Sprintf("mode=%s kind=%s size_known=%v zstd_read=%v backend=[%s; then %s]", mode, o.kind, known, zstd, f1.name, f2.name)
	cls := fmt.Sprintf("C12 mode=%s kind=%s size_known=%v fault=%s", mode, o.kind, known, f1.class)
	replay := map[string]interface{}{"cell": id}
	check := func(step string, r vf12Res, faulty bool) bool {
		switch r.class {
		case "miss", "error":
			return true
		case "readerr":
			// bytes delivered before the error must be a prefix
			if !zstd && !bytes.HasPrefix(o.logical, r.data) {
				rep.Violate(cls+" failing stream delivered foreign bytes", fmt.Sprintf("%s: %s read failed after %d bytes that are no prefix of the blob", id, step, len(r.data)), replay)
				return false
			}
			return true
		case "hit":
			if !bytes.Equal(r.data, o.logical) || r.size != int64(len(o.logical)) {
				rep.Violate(cls+" hit with wrong, short or mis-sized content", fmt.Sprintf("%s: %s read returned %d bytes (blob has %d), reported size %d, equal=%v", id, step, len(r.data), len(o.logical), r.size, bytes.Equal(r.data, o.logical)), replay)
				return false
			}
			return true
		}
		return false
	}
	apply := func(f vf12Fault) {
		if f.get != nil {
			g := *f.get
			px.GetFault[key] = &g
		}
	}
	apply(f1)
	r1 := vf12Read(cc, o, size, zstd, f1.ctxCancel)
	delete(px.GetFault, key)
	ok := check("first", r1, f1.class != "none")
	if f1.class == "oversize" {
		// any hit is wrong here, and nothing may have been cached
		delete(px.Objects, key)
		r3 := vf12Read(cc, o, -1, false, false)
		VfDrain(cc)
		st := VfSnapshot(cc)
		if r1.class == "hit" || r1.class == "readerr" || r3.class == "hit" || len(st.Entries) != 0 {
			rep.Violate(cls+" object larger than max_proxy_blob_size served or cached", fmt.Sprintf("%s: max_proxy_blob_size=%d object=%d bytes: read=%s, local-only read afterwards=%s, entries cached=%d", id, maxProxy, len(o.logical), r1.class, r3.class, len(st.Entries)), replay)
			return
		}
		for _, p := range VfAccounting(st, 0) {
			rep.Violate(cls+" accounting "+vfGeneric(p), fmt.Sprintf("%s: %s", id, p), replay)
		}
		if opened, closed, _, _ := px.Snapshot(); opened != closed {
			rep.Violate(cls+" backend stream not closed", fmt.Sprintf("%s: %d backend streams opened, %d closed", id, opened, closed), replay)
		}
		rep.Nontrivial(id)
		rep.Outcome(fmt.Sprintf("%s/%s first=%s local=%s", o.kind, f1.class, r1.class, r3.class))
		return
	}
	if f1.class == "none" && r1.class != "hit" {
		rep.Violate(cls+" faithful backend not read through", fmt.Sprintf("%s: backend holds the entry and answers correctly but the read gives %s (%v)", id, r1.class, r1.err), replay)
		ok = false
	}
	if !ok {
		return
	}
	// second read
	apply(f2)
	r2 := vf12Read(cc, o, size, zstd, f2.ctxCancel)
	delete(px.GetFault, key)
	if !check("second", r2, f2.class != "none") {
		return
	}
	if f2.class == "none" && r2.class != "hit" {
		rep.Violate(cls+" entry unavailable after a backend fault", fmt.Sprintf("%s: the second, fault-free read gives %s (%v) although the backend still holds the entry", id, r2.class, r2.err), replay)
		return
	}
	// third read with the backend emptied: whatever is cached locally must be exact (no poisoning)
	delete(px.Objects, key)
	r3 := vf12Read(cc, o, -1, false, false)
	if !check("local-only", r3, false) {
		return
	}
	if r3.class == "readerr" {
		rep.Violate(cls+" poisoned local entry", fmt.Sprintf("%s: with the backend emptied the locally cached entry fails while streaming: %v", id, r3.err), replay)
		return
	}
	// after a faithful read the entry is cached locally
	if f1.class == "none" && f2.class == "none" && r3.class != "hit" {
		rep.Violate(cls+" entry not cached after read-through", fmt.Sprintf("%s: after two successful read-throughs the entry is not served locally (%s)", id, r3.class), replay)
	}
	// quiescence: nothing leaked
	VfDrain(cc)
	st := VfSnapshot(cc)
	for _, p := range VfAccounting(st, 0) {
		rep.Violate(cls+" accounting "+vfGeneric(p), fmt.Sprintf("%s: %s", id, p), replay)
	}
	for _, p := range VfDirectoryHot(cc, st) {
		rep.Violate(cls+" directory "+vfGeneric(p), fmt.Sprintf("%s: %s", id, p), replay)
	}
	opened, closed, dbl, _ := px.Snapshot()
	if opened != closed {
		rep.Violate(cls+" backend stream not closed", fmt.Sprintf("%s: %d backend streams opened, %d closed", id, opened, closed), replay)
	}
	_ = dbl
	rep.Nontrivial(id)
	rep.Outcome(fmt.Sprintf("%s/%s first=%s second=%s local=%s", o.kind, f1.class, r1.class, r2.class, r3.class))
	if strings.HasSuffix(f1.name, "-at-7") {
		rep.Sample(map[string]interface{}{"cell": id, "first": r1.class, "second": r2.class, "local_only": r3.class})
	}
}

func vf12OffsetCell(rep *vlib.Report, dir, mode string, o vf12Obj, known, zstd bool, off int64, maxProxy int64) {
	rep.Eval()
	vfCleanHot(dir)
	px := vlib.NewFakeProxy()
	cc, err := New(dir, 1<<20, WithStorageMode(mode), WithAccessLogger(vlib.SilentLogger()), WithProxyBackend(px), WithProxyMaxBlobSize(maxProxy))
	if err != nil {
		rep.BrokenHarness("disk.New: %v", err)
		return
	}
	defer func() { VfDrain(cc); VfShutdown(cc) }()
	px.Set(o.kind, o.hash, o.stored, int64(len(o.logical)))
	size := int64(-1)
	if known {
		size = int64(len(o.logical))
	}
	id := fmt.Sprintf("mode=%s kind=%s size_known=%v zstd_read=%v offset=%d of %d (faithful backend)", mode, o.kind, known, zstd, off, len(o.logical))
	for _, step := range []string{"through the backend", "local hit"} {
		var rc io.ReadCloser
		var err error
		if zstd {
			rc, _, err = cc.GetZstd(context.Background(), o.hash, size, off)
		} else {
			rc, _, err = cc.Get(context.Background(), o.kind, o.hash, size, off)
		}
		if err != nil || rc == nil {
			rep.Violate("C12 read at an offset not served "+step, fmt.Sprintf("%s: err=%v reader=%v", id, err, rc != nil), nil)
			return
		}
		data, rerr := io.ReadAll(rc)
		_ = rc.Close()
		if rerr == nil && zstd {
			data, rerr = vlib.ZstdDecodeAll(data)
		}
		if rerr != nil || !bytes.Equal(data, o.logical[off:]) {
			rep.Violate("C12 read at an offset "+step+" delivers other bytes than [offset, n)", fmt.Sprintf("%s: %s: %d bytes (want %d), err=%v, equal to the whole blob: %v", id, step, len(data), int64(len(o.logical))-off, rerr, bytes.Equal(data, o.logical)), nil)
			return
		}
	}
	rep.Nontrivial(id)
}
