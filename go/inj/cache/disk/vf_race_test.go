package disk

// E6: free-running race pass. The bodies of the E1 scenarios (same
// operations, same colliding keys, a fake backend) run on real goroutines
// under the Go race detector, without the cooperative scheduler (whose
// hand-offs are happens-before edges that would blind the detector). This is
// not an enumeration: it discharges the premise of E1's reduction ("no
// unsynchronised access outside the owned points") and C07's last clause.

import (
	"bytes"
	"context"
	"fmt"
	"io"
	"log"
	"os"
	"path/filepath"
	"runtime"
	"strconv"
	"sync"
	"testing"

	"github.com/buchgr/bazel-remote/v2/cache"
	pb "github.com/buchgr/bazel-remote/v2/genproto/build/bazel/remote/execution/v2"
	"github.com/buchgr/bazel-remote/v2/utils/verifhook/vsched"
	"github.com/buchgr/bazel-remote/v2/verifdrv/vlib"
	"google.golang.org/protobuf/proto"
)

func TestVfRace(t *testing.T) {
	log.SetOutput(io.Discard)
	vsched.SetFastSkeleton("", nil)
	rep := vlib.NewReport("C07", "E6-race:"+vlib.Param("MODE", "zstd"))
	defer rep.Write()
	mode := vlib.Param("MODE", "zstd")
	reps, _ := strconv.Atoi(vlib.Param("REPS", "60"))
	dir := filepath.Join(os.Getenv("VERIF_SCRATCH"), "race")
	ctx := context.Background()
	mk := func(tag string, n int) vfBlob { return vfMkBlob("race/"+tag, n, true) }
	A, B, C, D := mk("A", 3000), mk("B", 3000), mk("C", 3000), mk("D", 5000)
	ack := vlib.Sha([]byte("race ac"))
	put := func(c Cache, k cache.EntryKind, h string, d []byte) {
		_ = c.Put(ctx, k, h, int64(len(d)), bytes.NewReader(d))
	}
	get := func(c Cache, k cache.EntryKind, h string, size int64, z bool) {
		var rc io.ReadCloser
		if z {
			rc, _, _ = c.GetZstd(ctx, h, size, 0)
		} else {
			rc, _, _ = c.Get(ctx, k, h, size, 0)
		}
		if rc != nil {
			_, _ = io.Copy(io.Discard, rc)
			_ = rc.Close()
		}
	}
	type scen struct {
		name    string
		max     int64
		hard    int64
		proxy   bool
		setup   func(c Cache, px *vlib.FakeProxy)
		threads []func(c Cache)
	}
	ar := func(ds ...vfBlob) []byte {
		r := &pb.ActionResult{}
		for i, d := range ds {
			r.OutputFiles = append(r.OutputFiles, &pb.OutputFile{Path: fmt.Sprint("f", i), Digest: &pb.Digest{Hash: d.hash, SizeBytes: int64(len(d.data))}})
		}
		b, _ := proto.Marshal(r)
		return b
	}
	scens := []scen{
		{name: "put-get-get", max: 1 << 20, threads: []func(Cache){
			func(c Cache) { put(c, cache.CAS, A.hash, A.data) }, func(c Cache) { get(c, cache.CAS, A.hash, 3000, false) }, func(c Cache) { get(c, cache.CAS, A.hash, -1, true) }}},
		{name: "overwrite-ac", max: 1 << 20, setup: func(c Cache, _ *vlib.FakeProxy) { put(c, cache.AC, ack, []byte("v1")) }, threads: []func(Cache){
			func(c Cache) { put(c, cache.AC, ack, D.data) }, func(c Cache) { get(c, cache.AC, ack, -1, false) }, func(c Cache) { c.Contains(ctx, cache.AC, ack, -1) }}},
		{name: "evict-vs-read", max: 8192, setup: func(c Cache, _ *vlib.FakeProxy) { put(c, cache.CAS, A.hash, A.data); put(c, cache.CAS, B.hash, B.data) }, threads: []func(Cache){
			func(c Cache) { put(c, cache.CAS, C.hash, C.data) }, func(c Cache) { get(c, cache.CAS, A.hash, 3000, false) }, func(c Cache) { get(c, cache.CAS, B.hash, -1, false) }, func(c Cache) { c.Stats() }}},
		{name: "three-puts-tight-hardlimit", max: 8192, hard: 12288, threads: []func(Cache){
			func(c Cache) { put(c, cache.CAS, A.hash, A.data) }, func(c Cache) { put(c, cache.CAS, B.hash, B.data) }, func(c Cache) { put(c, cache.CAS, C.hash, C.data) }}},
		{name: "findmissing-vs-puts", max: 1 << 20, threads: []func(Cache){
			func(c Cache) {
				_, _ = c.FindMissingCasBlobs(ctx, []*pb.Digest{{Hash: A.hash, SizeBytes: 3000}, {Hash: B.hash, SizeBytes: 3000}, {Hash: C.hash, SizeBytes: 3000}})
			},
			func(c Cache) { put(c, cache.CAS, A.hash, A.data) }, func(c Cache) { put(c, cache.CAS, C.hash, C.data) }}},
		{name: "backend-fetch-vs-put", max: 1 << 20, proxy: true, setup: func(c Cache, px *vlib.FakeProxy) {
			st := A.data
			if mode == "zstd" {
				st = vlib.EncodeCasBlob(A.data, 1<<20, true)
			}
			px.Set(cache.CAS, A.hash, st, 3000)
		}, threads: []func(Cache){
			func(c Cache) { get(c, cache.CAS, A.hash, 3000, false) }, func(c Cache) { get(c, cache.CAS, A.hash, -1, false) }, func(c Cache) { put(c, cache.CAS, A.hash, A.data) }}},
		{name: "validated-ac-with-backend-two-missing", max: 1 << 20, proxy: true, setup: func(c Cache, px *vlib.FakeProxy) {
			put(c, cache.AC, ack, ar(A, B, C))
		}, threads: []func(Cache){
			func(c Cache) { _, _, _ = c.GetValidatedActionResult(ctx, ack) }, func(c Cache) { _, _, _ = c.GetValidatedActionResult(ctx, ack) }}},
	}
	for _, sc := range scens {
		for r := 0; r < reps; r++ {
			for _, procs := range []int{2, 16} {
				rep.Eval()
				prev := runtime.GOMAXPROCS(procs)
				_ = os.RemoveAll(dir)
				opts := []Option{WithStorageMode(mode), WithAccessLogger(vlib.SilentLogger())}
				var px *vlib.FakeProxy
				if sc.proxy {
					px = vlib.NewFakeProxy()
					opts = append(opts, WithProxyBackend(px))
				}
				if sc.hard > 0 {
					opts = append(opts, WithMaxSizeHardLimit(sc.hard))
				}
				c, err := New(dir, sc.max, opts...)
				if err != nil {
					t.Fatal(err)
				}
				if sc.setup != nil {
					sc.setup(c, px)
				}
				var wg sync.WaitGroup
				start := make(chan struct{})
				for _, th := range sc.threads {
					th := th
					wg.Add(1)
					go func() { defer wg.Done(); <-start; th(c) }()
				}
				close(start)
				wg.Wait()
				runtime.GOMAXPROCS(prev)
				VfDrain(c)
				VfShutdown(c)
			}
		}
		rep.Nontrivial(sc.name)
		rep.Outcome(sc.name)
	}
	rep.Sample(map[string]interface{}{"scenarios": len(scens), "repetitions_each": reps * 2, "mode": mode})
}
