package disk

// Harness adapter: the only place where the verification drivers read the
// private state of the disk cache. Injected by overlay, never committed to
// the repository. A refactoring of the cache breaks this file loudly.

import (
	"container/list"
	"fmt"
	"io/fs"
	"os"
	"path/filepath"
	"sort"
	"strings"
	gosync "sync"
	"time"

	"github.com/buchgr/bazel-remote/v2/cache"
	"github.com/buchgr/bazel-remote/v2/utils/verifhook/vsched"
)

type VfEntry struct {
	Key        string `json:"key"`
	Size       int64  `json:"size"`
	SizeOnDisk int64  `json:"size_on_disk"`
	Random     string `json:"random"`
	Legacy     bool   `json:"legacy"`
	Path       string `json:"path"` // relative to the cache dir
}

type VfState struct {
	Entries      []VfEntry // most recently used first
	CurrentSize  int64
	Reserved     int64
	Uncompressed int64
	MapLen       int
	ListLen      int
	QueuedBytes  int64
	Queued       []VfEntry
	MaxSize      int64
	HardLimit    int64
	Problems     []string // structural problems (map/list bijection)
}

func vfUnwrap(c Cache) *diskCache {
	switch v := c.(type) {
	case *diskCache:
		return v
	case *metricsDecorator:
		return v.diskCache
	}
	panic(fmt.Sprintf("vfUnwrap: unknown cache type %T", c))
}

func vfKind(key string) string {
	if i := strings.IndexByte(key, '/'); i > 0 {
		return key[:i]
	}
	return "?"
}

func (c *diskCache) vfEntry(e *entry) VfEntry {
	rel, _ := filepath.Rel(c.dir, c.getElementPath(e.key, e.value))
	return VfEntry{Key: e.key, Size: e.value.size, SizeOnDisk: e.value.sizeOnDisk, Random: e.value.random, Legacy: e.value.legacy, Path: rel}
}

// VfSnapshot copies index and counters under the index lock.
func VfSnapshot(cc Cache) VfState {
	c := vfUnwrap(cc)
	c.mu.Lock()
	defer c.mu.Unlock()
	return c.vfSnapshotLocked()
}

func (c *diskCache) vfSnapshotLocked() VfState {
	l := &c.lru
	st := VfState{CurrentSize: l.TotalSize(), Reserved: l.ReservedSize(), Uncompressed: l.UncompressedSize(),
		MapLen: len(l.cache), ListLen: l.ll.Len(), QueuedBytes: l.queuedEvictionsSize.Load(),
		MaxSize: l.MaxSize(), HardLimit: l.maxSizeHardLimit}
	seen := map[string]bool{}
	for e := l.ll.Front(); e != nil; e = e.Next() {
		kv := e.Value.(*entry)
		st.Entries = append(st.Entries, c.vfEntry(kv))
		if seen[kv.key] {
			st.Problems = append(st.Problems, "key twice in recency list: "+kv.key)
		}
		seen[kv.key] = true
		if me, ok := l.cache[kv.key]; !ok {
			st.Problems = append(st.Problems, "list element without map entry: "+kv.key)
		} else if me != e {
			st.Problems = append(st.Problems, "map entry points to another element: "+kv.key)
		}
	}
	for k, me := range l.cache {
		ks, _ := k.(string)
		if !seen[ks] {
			st.Problems = append(st.Problems, "map entry not in recency list: "+ks)
		}
		if me.Value.(*entry).key != ks {
			st.Problems = append(st.Problems, "map key "+ks+" holds entry "+me.Value.(*entry).key)
		}
	}
	sort.Strings(st.Problems)
	// peek at the eviction queue without disturbing it
	select {
	case q := <-l.queuedEvictionsChan:
		for _, kv := range q {
			st.Queued = append(st.Queued, c.vfEntry(kv))
		}
		l.queuedEvictionsChan <- q
	default:
	}
	return st
}

func vfRound(n int64) int64 { return (n + BlockSize - 1) / BlockSize * BlockSize }

// VfAccounting checks the C03 equation on a snapshot; inflight is the sum of
// reservations the harness knows to be in flight.
func VfAccounting(st VfState, inflight int64) []string {
	var out []string
	var sum, usum int64
	for _, e := range st.Entries {
		sum += vfRound(e.SizeOnDisk)
		usum += vfRound(e.Size)
	}
	out = append(out, st.Problems...)
	if st.MapLen != len(st.Entries) || st.ListLen != len(st.Entries) {
		out = append(out, fmt.Sprintf("entry count: map=%d list=%d walked=%d", st.MapLen, st.ListLen, len(st.Entries)))
	}
	if st.CurrentSize != sum+st.Reserved {
		out = append(out, fmt.Sprintf("accounted size %d != sum of entries %d + reserved %d", st.CurrentSize, sum, st.Reserved))
	}
	if st.Uncompressed != usum {
		out = append(out, fmt.Sprintf("logical total %d != sum of entries %d", st.Uncompressed, usum))
	}
	if st.CurrentSize > st.MaxSize {
		out = append(out, fmt.Sprintf("accounted size %d > max_size %d", st.CurrentSize, st.MaxSize))
	}
	if inflight >= 0 && st.Reserved != inflight {
		out = append(out, fmt.Sprintf("reserved %d != in-flight reservations %d", st.Reserved, inflight))
	}
	if st.CurrentSize < 0 || st.Reserved < 0 || st.Uncompressed < 0 {
		out = append(out, fmt.Sprintf("negative counter: current=%d reserved=%d logical=%d", st.CurrentSize, st.Reserved, st.Uncompressed))
	}
	return out
}

// VfListFiles returns relative path -> size of every regular file under
// the cache directory (full walk, ~6 ms on tmpfs).
func VfListFiles(dir string) map[string]int64 {
	out := map[string]int64{}
	_ = filepath.WalkDir(dir, func(p string, d fs.DirEntry, err error) error {
		if err != nil {
			return nil
		}
		if d.Type().IsRegular() {
			rel, _ := filepath.Rel(dir, p)
			if fi, err := d.Info(); err == nil {
				out[rel] = fi.Size()
			}
		}
		return nil
	})
	return out
}

// vfHot lists the two-letter sub-directories in which the harness expects
// files (set by drivers with small fixed key sets); listing only those is
// ~50x cheaper than a full walk. A full walk still happens at the points the
// drivers choose (VfListFiles).
var vfHot []string

// VfSetHot declares the hashes a driver uses.
func VfSetHot(hashes ...string) {
	seen := map[string]bool{}
	vfHot = nil
	for _, h := range hashes {
		if len(h) >= 2 && !seen[h[:2]] {
			seen[h[:2]] = true
			for _, ks := range []string{"cas.v2", "ac.v2", "raw.v2"} {
				vfHot = append(vfHot, filepath.Join(ks, h[:2]))
			}
		}
	}
}

// VfFastSkeleton switches the disk.New fast path on for dir (which must
// already hold the directory skeleton) using the declared hot directories.
// Honoured unless VERIF_PARAM_NOFAST=1 (conformance runs).
func VfFastSkeleton(dir string) {
	if os.Getenv("VERIF_PARAM_NOFAST") == "1" || len(vfHot) == 0 {
		vsched.SetFastSkeleton("", nil)
		return
	}
	real, err := filepath.EvalSymlinks(dir)
	if err != nil {
		real = dir
	}
	vsched.SetFastSkeleton(real, vfHot)
}

// VfListHot lists only the hot sub-directories (all, if none declared).
func VfListHot(dir string) map[string]int64 {
	if len(vfHot) == 0 {
		return VfListFiles(dir)
	}
	out := map[string]int64{}
	for _, sub := range vfHot {
		des, err := os.ReadDir(filepath.Join(dir, sub))
		if err != nil {
			continue
		}
		for _, de := range des {
			if de.Type().IsRegular() {
				if fi, err := de.Info(); err == nil {
					out[filepath.Join(sub, de.Name())] = fi.Size()
				}
			}
		}
	}
	return out
}

// VfDirectory checks C04 on a quiescent cache: directory == index.
func VfDirectory(cc Cache, st VfState) []string {
	return vfDirectoryWith(cc, st, VfListFiles(vfUnwrap(cc).dir))
}

// VfDirectoryHot is VfDirectory restricted to the hot sub-directories.
func VfDirectoryHot(cc Cache, st VfState) []string {
	return vfDirectoryWith(cc, st, VfListHot(vfUnwrap(cc).dir))
}

func vfDirectoryWith(cc Cache, st VfState, files map[string]int64) []string {
	var out []string
	want := map[string]int64{}
	for _, e := range st.Entries {
		want[e.Path] = e.SizeOnDisk
	}
	for p, sz := range want {
		got, ok := files[p]
		if !ok {
			out = append(out, "indexed entry has no file: "+vfStrip(p))
		} else if got != sz {
			out = append(out, fmt.Sprintf("file %s has size %d, index says %d", vfStrip(p), got, sz))
		}
	}
	for p := range files {
		if _, ok := want[p]; !ok {
			out = append(out, "file without index entry: "+vfStrip(p))
		}
	}
	sort.Strings(out)
	return out
}

// vfStrip removes the random suffix from a cache file path so that messages
// are stable across runs.
func vfStrip(p string) string {
	base := filepath.Base(p)
	v1 := strings.HasSuffix(base, ".v1")
	base = strings.TrimSuffix(base, ".v1")
	if i := strings.LastIndexByte(base, '-'); i > 0 {
		base = base[:i] + "-R"
	}
	if v1 {
		base += ".v1"
	}
	if len(base) > 20 {
		base = base[:8] + ".." + base[64:]
	}
	return filepath.Join(filepath.Base(filepath.Dir(filepath.Dir(p))), base)
}

// VfReserve takes (VfUnreserve returns) a reservation on the index, as an
// in-flight request would hold it.
func VfReserve(cc Cache, size int64) error {
	c := vfUnwrap(cc)
	c.mu.Lock()
	defer c.mu.Unlock()
	return c.lru.Reserve(size)
}

func VfUnreserve(cc Cache, size int64) error {
	c := vfUnwrap(cc)
	c.mu.Lock()
	defer c.mu.Unlock()
	return c.lru.Unreserve(size)
}

// VfDir returns the cache directory.
func VfDir(cc Cache) string { return vfUnwrap(cc).dir }

// VfKickEvictor wakes the background remover with an empty batch, so that
// it runs into its evict.recv point again.
func VfKickEvictor(cc Cache) {
	c := vfUnwrap(cc)
	c.mu.Lock()
	select {
	case q := <-c.lru.queuedEvictionsChan:
		c.lru.queuedEvictionsChan <- q
	default:
		c.lru.queuedEvictionsChan <- []*entry{}
	}
	c.mu.Unlock()
}

// VfUnkick removes an empty batch left in the queue by VfKickEvictor (when
// the remover reached its receive point before the kick arrived).
func VfUnkick(cc Cache) {
	c := vfUnwrap(cc)
	c.mu.Lock()
	select {
	case q := <-c.lru.queuedEvictionsChan:
		if len(q) > 0 {
			c.lru.queuedEvictionsChan <- q
		}
	default:
	}
	c.mu.Unlock()
}

// VfDrain waits (free-running mode) until the remover has no backlog and is
// idle. The byte counter alone cannot tell (zero-length files), so after the
// queue looks empty an empty batch is sent as a barrier: the remover
// announces every receive through its evict.recv hook, and once it has
// announced another receive with the queue empty it has finished everything
// that was queued before the barrier.
func VfDrain(cc Cache) bool {
	c := vfUnwrap(cc)
	deadline := time.Now().Add(30 * time.Second)
	empty := func() bool {
		c.mu.Lock()
		n := len(c.lru.queuedEvictionsChan)
		c.mu.Unlock()
		return n == 0 && c.lru.queuedEvictionsSize.Load() == 0
	}
	for !empty() {
		if time.Now().After(deadline) {
			return false
		}
		time.Sleep(100 * time.Microsecond)
	}
	c1 := vsched.AwaitCalls()
	VfKickEvictor(cc)
	for {
		if empty() && vsched.AwaitCalls() >= c1+1 {
			return true
		}
		if time.Now().After(deadline) {
			return false
		}
		time.Sleep(50 * time.Microsecond)
	}
}

// VfShutdown ends the goroutines a cache instance owns (remover, backend
// existence workers) so that thousands of instances can be created in one
// process. Only call it on an idle cache.
func VfShutdown(cc Cache) {
	c := vfUnwrap(cc)
	done := vsched.StopNextAwait("evict.recv")
	VfKickEvictor(cc)
	select {
	case <-done:
	case <-time.After(10 * time.Second):
		vsched.CancelStop()
	}
	if c.containsQueue != nil {
		vfClosedMu.Lock()
		if !vfClosed[c] {
			vfClosed[c] = true
			close(c.containsQueue)
		}
		if len(vfClosed) > 4096 {
			vfClosed = map[*diskCache]bool{c: true}
		}
		vfClosedMu.Unlock()
	}
}

var (
	vfClosedMu gosync.Mutex
	vfClosed   = map[*diskCache]bool{}
)

// VfForget evicts key (harness-driven eviction, as if by space pressure).
func VfForget(cc Cache, key string) {
	c := vfUnwrap(cc)
	c.mu.Lock()
	c.lru.RemoveKey(key)
	c.mu.Unlock()
}

// VfFileLocation exposes the file naming function.
func VfFileLocation(cc Cache, kind cache.EntryKind, legacy bool, hash string, size int64, random string) string {
	return vfUnwrap(cc).FileLocation(kind, legacy, hash, size, random)
}

// VfSeedTempfiles makes temp file suffixes reproducible.
func VfSeedTempfiles(s uint32) { tfc.VfSeed(s) }

// VfRecency lists keys from least to most recently used.
func VfRecency(st VfState) []string {
	out := make([]string, 0, len(st.Entries))
	for i := len(st.Entries) - 1; i >= 0; i-- {
		out = append(out, st.Entries[i].Key)
	}
	return out
}

var _ = list.New
