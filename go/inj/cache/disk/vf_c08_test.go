package disk

// C08 (engine E3): kill the server at every point of a short history and
// restart it on what is on disk. Crash images: the directory at every
// scheduling point of the history (namespace operations, every Read of the
// uploader's reader / backend stream, before commit, before each background
// unlink), expanded with every torn prefix of each file that is in flight at
// that point and with every partial in-place overwrite between two
// consecutive images of one file (the chunk-table rewrite). The real disk.New
// and read paths run on every image.

import (
	"bytes"
	"context"
	"crypto/sha256"
	"encoding/hex"
	"fmt"
	pb "github.com/buchgr/bazel-remote/v2/genproto/build/bazel/remote/execution/v2"
	"google.golang.org/protobuf/proto"
	"io"
	"log"
	"os"
	"path/filepath"
	"sort"
	"strings"
	"syscall"
	"testing"
	"time"

	"github.com/buchgr/bazel-remote/v2/cache"
	"github.com/buchgr/bazel-remote/v2/utils/verifhook/vsched"
	"github.com/buchgr/bazel-remote/v2/verifdrv/vlib"
)

type vf8File struct {
	data  []byte
	atime time.Time
	mtime time.Time
}

type vf8Image struct {
	files map[string]vf8File // rel path -> content
	point string
	acked map[string]int // key -> index of the last acknowledged value (into vf8Key.values)
	note  string
}

type vf8Key struct {
	kind   cache.EntryKind
	hash   string
	values [][]byte // legal complete values (CAS: exactly one)
}

type vf8Hist struct {
	name    string
	max     int64
	proxy   bool
	keys    map[string]*vf8Key
	run     func(h *vf8Run)
	evicted map[string]bool // keys that the history evicts (acked but may be gone)
}

type vf8Run struct {
	hist     *vf8Hist
	cc       Cache
	c        *diskCache
	dir      string
	proxy    *vlib.FakeProxy
	acked    map[string]int
	images   []vf8Image
	mayEvict map[string]bool
}

// stepReader makes every Read of an upload a point.
type vf8StepReader struct{ r io.Reader }

func (s *vf8StepReader) Read(p []byte) (int, error) {
	vsched.Step("harness.read", "")
	return s.r.Read(p)
}

// vf8BytesReader behaves like the *bytes.Reader the servers hand to the disk
// layer for action-cache values: it offers WriteTo (the whole value in ONE
// write step, which is what io.Copy uses) as well as Read. Both are points,
// so that a write path which falls back to slice-wise Read/Write becomes
// visible as crash points between its slices.
type vf8BytesReader struct {
	data []byte
	pos  int
}

func (b *vf8BytesReader) Read(p []byte) (int, error) {
	vsched.Step("harness.read", "")
	if b.pos >= len(b.data) {
		return 0, io.EOF
	}
	n := copy(p, b.data[b.pos:])
	b.pos += n
	return n, nil
}

func (b *vf8BytesReader) WriteTo(w io.Writer) (int64, error) {
	vsched.Step("harness.writeto", "")
	n, err := w.Write(b.data[b.pos:])
	b.pos += n
	return int64(n), err
}

func vf8Snapshot(dir string) map[string]vf8File {
	out := map[string]vf8File{}
	for rel := range VfListHot(dir) {
		full := filepath.Join(dir, rel)
		b, err := os.ReadFile(full)
		if err != nil {
			continue
		}
		fi, err := os.Stat(full)
		if err != nil {
			continue
		}
		f := vf8File{data: b, mtime: fi.ModTime(), atime: fi.ModTime()}
		if st, ok := fi.Sys().(*syscall.Stat_t); ok {
			f.atime = time.Unix(int64(st.Atim.Sec), int64(st.Atim.Nsec))
		}
		out[rel] = f
	}
	return out
}

func (r *vf8Run) put(k *vf8Key, vi int, declaredHash string) error {
	data := k.values[vi]
	hash := k.hash
	if declaredHash != "" {
		hash = declaredHash
	}
	var rd io.Reader = &vf8StepReader{bytes.NewReader(data)} // CAS uploads stream (HTTP body, ByteStream pipe)
	if k.kind != cache.CAS {
		rd = &vf8BytesReader{data: data} // AC/RAW values arrive as one in-memory buffer
	}
	err := r.cc.Put(context.Background(), k.kind, hash, int64(len(data)), rd)
	if err == nil && declaredHash == "" {
		r.acked[cache.LookupKey(k.kind, k.hash)] = vi
	}
	return err
}

func vf8Histories(mode string) []*vf8Hist {
	mkCAS := func(d []byte) *vf8Key { return &vf8Key{kind: cache.CAS, hash: vlib.Sha(d), values: [][]byte{d}} }
	A := mkCAS(vlib.Bytes("c08-A", 200, true))
	B := mkCAS(vlib.Bytes("c08-B", 300, true))
	Z := mkCAS(vlib.Zeros(2<<20 + 5))
	C := mkCAS(vlib.Bytes("c08-C", 250, true))
	ack := strings.Repeat("c8", 32)
	// action-cache values are real serialised ActionResults (so that the validating read path,
	// which parses them, can be asked too)
	arOf := func(tag string, n int, exit int32) []byte {
		b, err := proto.Marshal(&pb.ActionResult{ExitCode: exit, StdoutRaw: vlib.Bytes(tag, n, false)})
		if err != nil {
			panic(err)
		}
		return b
	}
	K := &vf8Key{kind: cache.AC, hash: ack, values: [][]byte{arOf("c08-v1", 60, 1), arOf("c08-v2", 90, 2)}}
	L := &vf8Key{kind: cache.AC, hash: strings.Repeat("d9", 32), values: [][]byte{arOf("c08-large-ac", 100<<10, 3)}}
	keyOf := func(k *vf8Key) string { return cache.LookupKey(k.kind, k.hash) }
	ks := func(keys ...*vf8Key) map[string]*vf8Key {
		m := map[string]*vf8Key{}
		for _, k := range keys {
			m[keyOf(k)] = k
		}
		return m
	}
	other := vlib.Sha([]byte("not the hash of A"))
	return []*vf8Hist{
		{name: "H1-upload", max: 1 << 20, keys: ks(A), run: func(h *vf8Run) { _ = h.put(A, 0, "") }},
		{name: "H1z-upload-3-chunks", max: 8 << 20, keys: ks(Z), run: func(h *vf8Run) { _ = h.put(Z, 0, "") }},
		{name: "H2-ac-overwrite", max: 1 << 20, keys: ks(K), run: func(h *vf8Run) { _ = h.put(K, 0, ""); _ = h.put(K, 1, "") }},
		{name: "H3-wrong-hash-cleanup", max: 1 << 20, keys: ks(A, &vf8Key{kind: cache.CAS, hash: other, values: nil}), run: func(h *vf8Run) {
			_ = h.put(A, 0, other)
			_ = h.put(A, 0, "")
		}},
		{name: "H6-ac-large", max: 1 << 20, keys: ks(L), run: func(h *vf8Run) { _ = h.put(L, 0, "") }},
		{name: "H4-evict", max: 8192, keys: ks(A, B, C), evicted: map[string]bool{keyOf(A): true, keyOf(B): true}, run: func(h *vf8Run) {
			_ = h.put(A, 0, "")
			_ = h.put(B, 0, "")
			_ = h.put(C, 0, "") // evicts A (and possibly B)
		}},
		{name: "H5-backend-fetch", max: 1 << 20, proxy: true, keys: ks(C), run: func(h *vf8Run) {
			stored := C.values[0]
			if mode == "zstd" {
				stored = vlib.EncodeCasBlob(C.values[0], 1<<20, true)
			}
			h.proxy.Set(cache.CAS, C.hash, stored, int64(len(C.values[0])))
			rc, _, err := h.cc.Get(context.Background(), cache.CAS, C.hash, int64(len(C.values[0])), 0)
			if err == nil && rc != nil {
				_, _ = io.ReadAll(rc)
				_ = rc.Close()
				h.acked[keyOf(C)] = 0
			}
		}},
	}
}

// vf8Record runs the history under the scheduler and records the images.
func vf8Record(t *testing.T, h *vf8Hist, dir, mode, policy string) *vf8Run {
	vfCleanHot(dir)
	r := &vf8Run{hist: h, dir: dir, acked: map[string]int{}}
	opts := []Option{WithStorageMode(mode), WithAccessLogger(vlib.SilentLogger())}
	if h.proxy {
		r.proxy = vlib.NewFakeProxy()
		r.proxy.StepFn = vsched.Step
		opts = append(opts, WithProxyBackend(r.proxy))
	}
	cc, err := New(dir, h.max, opts...)
	if err != nil {
		t.Fatal(err)
	}
	r.cc, r.c = cc, vfUnwrap(cc)
	VfSeedTempfiles(4242)
	s := vsched.New(nil)
	if policy == "eager-remover" {
		s.Prefer = "EV"
	}
	s.Observer = func(th, op, detail string) {
		acked := map[string]int{}
		for k, v := range r.acked {
			acked[k] = v
		}
		r.images = append(r.images, vf8Image{files: vf8Snapshot(dir), point: fmt.Sprintf("%s:%s %s", th, op, detail), acked: acked})
	}
	s.Install()
	adopted := s.AdoptNext("evict.recv", "EV")
	VfKickEvictor(cc)
	<-adopted
	VfUnkick(cc)
	s.Spawn("T1", func() { h.run(r) })
	s.Run()
	s.Close()
	// final image (after everything, remover drained)
	acked := map[string]int{}
	for k, v := range r.acked {
		acked[k] = v
	}
	r.images = append(r.images, vf8Image{files: vf8Snapshot(dir), point: "end", acked: acked})
	if r.c.containsQueue != nil {
		close(r.c.containsQueue)
	}
	return r
}

// vf8Expand adds torn variants; returns deduplicated images.
var sampled bool

func vf8Expand(r *vf8Run) []vf8Image {
	var out []vf8Image
	seen := map[string]bool{}
	add := func(img vf8Image) {
		var ks []string
		for k := range img.files {
			ks = append(ks, k)
		}
		sort.Strings(ks)
		h := sha256.New()
		for _, k := range ks {
			h.Write([]byte(k))
			h.Write([]byte{0})
			h.Write(img.files[k].data)
			h.Write([]byte{1})
		}
		var as []string
		for k, v := range img.acked {
			as = append(as, fmt.Sprintf("%s=%d", k, v))
		}
		sort.Strings(as)
		h.Write([]byte(strings.Join(as, ",")))
		key := hex.EncodeToString(h.Sum(nil))
		if !seen[key] {
			seen[key] = true
			out = append(out, img)
		}
	}
	clone := func(img vf8Image) vf8Image {
		c := vf8Image{files: map[string]vf8File{}, point: img.point, acked: img.acked}
		for k, v := range img.files {
			c.files[k] = v
		}
		return c
	}
	var prev *vf8Image
	for i := range r.images {
		img := r.images[i]
		add(img)
		for rel, f := range img.files {
			var before []byte
			existed := false
			if prev != nil {
				if pf, ok := prev.files[rel]; ok {
					before, existed = pf.data, true
				}
			}
			if existed && bytes.Equal(before, f.data) {
				continue // untouched since the previous point
			}
			// (b) torn append: every length between the previous and the current one
			from := 0
			if existed && len(before) <= len(f.data) && bytes.HasPrefix(f.data, before) {
				from = len(before)
			}
			for k := from; k < len(f.data); k++ {
				if len(f.data)-from > 1024 {
					// long append: lengths near both ends and around every 4 KiB multiple
					near := k-from < 64 || len(f.data)-k <= 64 || k%4096 <= 1 || k%4096 == 4095
					if !near {
						sampled = true
						continue
					}
				}
				c := clone(img)
				nf := f
				nf.data = f.data[:k]
				c.files[rel] = nf
				c.point = fmt.Sprintf("%s [torn: %s cut to %d of %d bytes]", img.point, vfStrip(rel), k, len(f.data))
				if prev != nil {
					c.acked = prev.acked
				}
				add(c)
			}
			// (c) partial in-place overwrite (same length, content changed)
			if existed && len(before) == len(f.data) && !bytes.Equal(before, f.data) {
				lo, hi := 0, len(f.data)
				for lo < hi && before[lo] == f.data[lo] {
					lo++
				}
				for hi > lo && before[hi-1] == f.data[hi-1] {
					hi--
				}
				for k := lo + 1; k < hi; k++ {
					c := clone(img)
					nf := f
					nf.data = append(append([]byte(nil), f.data[:k]...), before[k:]...)
					c.files[rel] = nf
					c.point = fmt.Sprintf("%s [torn rewrite: first %d bytes new]", img.point, k)
					c.acked = prev.acked
					add(c)
				}
			}
		}
		// a file that vanished between two points needs no expansion (unlink is atomic)
		prev = &r.images[i]
	}
	return out
}

func vf8Materialize(dir string, img vf8Image) {
	vfCleanHot(dir)
	for rel, f := range img.files {
		full := filepath.Join(dir, rel)
		_ = os.WriteFile(full, f.data, 0o644)
		_ = os.Chtimes(full, f.atime, f.mtime)
	}
}

func vf8ReadAll(cc Cache, kind cache.EntryKind, hash string, size int64, zstd bool) (data []byte, hit bool, reported int64, err error) {
	var rc io.ReadCloser
	if zstd {
		rc, reported, err = cc.GetZstd(context.Background(), hash, size, 0)
	} else {
		rc, reported, err = cc.Get(context.Background(), kind, hash, size, 0)
	}
	if err != nil || rc == nil {
		if rc != nil {
			_ = rc.Close()
		}
		return nil, false, reported, err
	}
	data, err = io.ReadAll(rc)
	_ = rc.Close()
	if err == nil && zstd {
		data, err = vlib.ZstdDecodeAll(data)
	}
	return data, true, reported, err
}

// vf8Check restarts on the image and applies the oracle.
func vf8Check(rep *vlib.Report, h *vf8Hist, dir string, img vf8Image, modeBefore, modeAfter, policy string) {
	rep.Eval()
	vf8Materialize(dir, img)
	cfg := fmt.Sprintf("history=%s mode %s->%s remover=%s", h.name, modeBefore, modeAfter, policy)
	id := fmt.Sprintf("%s kill at %s", cfg, img.point)
	cls := fmt.Sprintf("C08 %s mode %s->%s", h.name, modeBefore, modeAfter)
	var flist []string
	for rel, f := range img.files {
		flist = append(flist, fmt.Sprintf("%s(%dB)", vfStrip(rel), len(f.data)))
	}
	sort.Strings(flist)
	replay := map[string]interface{}{"history": h.name, "mode_before": modeBefore, "mode_after": modeAfter, "remover": policy, "kill_point": img.point, "files": flist}
	opts := []Option{WithStorageMode(modeAfter), WithAccessLogger(vlib.SilentLogger())}
	cc, err := New(dir, h.max, opts...)
	if err != nil {
		rep.Violate(cls+" restart fails", fmt.Sprintf("%s: disk.New: %v", id, err), replay)
		return
	}
	defer VfShutdown(cc)
	var keys []string
	for k := range h.keys {
		keys = append(keys, k)
	}
	sort.Strings(keys)
	torn := strings.Contains(img.point, "[torn")
	for _, kk := range keys {
		k := h.keys[kk]
		ackIdx, acked := img.acked[kk]
		// the validating read path of the servers (gRPC GetActionResult, HTTP GET /ac): at a crash
		// state between two file-system steps it returns nothing or a completed upload
		if k.kind == cache.AC && !torn {
			ar, raw, verr := cc.GetValidatedActionResult(context.Background(), k.hash)
			if verr == nil && ar != nil {
				legal := false
				for _, v := range k.values {
					if bytes.Equal(v, raw) {
						legal = true
					}
				}
				if !legal {
					rep.Violate(cls+" validated action-cache read serves a value that is no completed upload", fmt.Sprintf("%s: GetValidatedActionResult of %s returned a result of %d stored bytes", id, kk[:10], len(raw)), replay)
					return
				}
			}
		}
		sizes := []int64{-1}
		for _, v := range k.values {
			sizes = append(sizes, int64(len(v)))
		}
		type probe struct {
			size int64
			zstd bool
		}
		var probes []probe
		for _, s := range sizes {
			probes = append(probes, probe{s, false})
			if k.kind == cache.CAS {
				probes = append(probes, probe{s, true})
			}
		}
		for _, p := range probes {
			data, hit, reported, err := vf8ReadAll(cc, k.kind, k.hash, p.size, p.zstd)
			what := fmt.Sprintf("read of %s (size=%d zstd=%v)", kk[:10], p.size, p.zstd)
			if hit && err == nil {
				legal := false
				for _, v := range k.values {
					if bytes.Equal(v, data) {
						legal = true
					}
				}
				if !legal {
					kindOf := "bytes that do not match the requested CAS digest"
					if k.kind != cache.CAS {
						kindOf = "a value that is not byte-identical to any completed upload"
					}
					// which crash state: a real point between two file-system steps (the property's
					// crash model) or a tear inside one write step (power-loss model, beyond it)
					tear := "between steps, partial value"
					switch {
					case torn:
						tear = "inside one write step"
					case len(data) == 0:
						tear = "between steps, empty file"
					}
					rep.Violate(cls+" torn or foreign value served ("+k.kind.String()+", size "+sizeClass(p.size)+"; "+tear+")", fmt.Sprintf("%s: %s returned %d bytes: %s", id, what, len(data), kindOf), replay)
					return
				}
				if reported != int64(len(data)) {
					rep.Violate(cls+" wrong size reported after restart", fmt.Sprintf("%s: %s reported %d for %d bytes", id, what, reported, len(data)), replay)
				}
			}
			if hit && err != nil {
				// stream failed midway: bytes so far must be a prefix of a legal value
				okp := false
				for _, v := range k.values {
					if bytes.HasPrefix(v, data) {
						okp = true
					}
				}
				if !okp && !p.zstd {
					rep.Violate(cls+" failing stream delivered foreign bytes", fmt.Sprintf("%s: %s failed (%v) after delivering %d bytes that are no prefix of a completed upload", id, what, err, len(data)), replay)
					return
				}
			}
			if acked && !h.evicted[kk] && (p.size == -1 || p.size == int64(len(k.values[ackIdx]))) {
				if !hit || err != nil {
					rep.Violate(cls+" acknowledged upload lost", fmt.Sprintf("%s: %s: upload #%d of %s was acknowledged before the kill and not evicted, but the read gives hit=%v err=%v", id, what, ackIdx, kk[:10], hit, err), replay)
					return
				}
				if k.kind != cache.CAS && !bytes.Equal(data, k.values[ackIdx]) && !torn {
					// a later, unacknowledged but complete upload may also be served
					later := false
					for vi := ackIdx + 1; vi < len(k.values); vi++ {
						if bytes.Equal(data, k.values[vi]) {
							later = true
						}
					}
					if !later {
						rep.Violate(cls+" superseded value served after restart", fmt.Sprintf("%s: %s returned upload #? instead of the acknowledged #%d", id, what, ackIdx), replay)
						return
					}
				}
			}
		}
		ok, _ := cc.Contains(context.Background(), k.kind, k.hash, -1)
		_ = ok
	}
	VfDrain(cc)
	st := VfSnapshot(cc)
	for _, p := range VfAccounting(st, 0) {
		rep.Violate(cls+" accounting after restart "+vfGeneric(p), fmt.Sprintf("%s: %s", id, p), replay)
	}
	for _, p := range VfDirectoryHot(cc, st) {
		rep.Violate(cls+" directory after restart "+vfGeneric(p), fmt.Sprintf("%s: after every key was read once: %s", id, p), replay)
	}
	// the interrupted uploads can simply be repeated
	for _, kk := range keys {
		k := h.keys[kk]
		if len(k.values) == 0 {
			continue
		}
		v := k.values[len(k.values)-1]
		if err := cc.Put(context.Background(), k.kind, k.hash, int64(len(v)), bytes.NewReader(v)); err != nil {
			rep.Violate(cls+" repeating the upload fails", fmt.Sprintf("%s: re-upload of %s: %v", id, kk[:10], err), replay)
			continue
		}
		data, hit, _, err := vf8ReadAll(cc, k.kind, k.hash, int64(len(v)), false)
		if !hit || err != nil || !bytes.Equal(data, v) {
			rep.Violate(cls+" repeated upload not served", fmt.Sprintf("%s: after re-upload of %s: hit=%v err=%v", id, kk[:10], hit, err), replay)
		}
	}
	VfDrain(cc)
	rep.Nontrivial(cfg + img.point)
}

func sizeClass(s int64) string {
	if s < 0 {
		return "unknown"
	}
	return "known"
}

func TestVfC08(t *testing.T) {
	log.SetOutput(io.Discard)
	rep := vlib.NewReport("C08", "E3:"+vlib.Param("HISTORY", "")+"/"+vlib.Param("MODE", "zstd"))
	defer rep.Write()
	modeBefore := vlib.Param("MODE", "zstd")
	want := vlib.Param("HISTORY", "H1-upload")
	dir := filepath.Join(os.Getenv("VERIF_SCRATCH"), "cache")
	deadline := vlib.Deadline()
	var hist *vf8Hist
	for _, h := range vf8Histories(modeBefore) {
		if h.name == want {
			hist = h
		}
	}
	if hist == nil {
		rep.BrokenHarness("unknown history %q", want)
		return
	}
	var hot []string
	for _, k := range hist.keys {
		hot = append(hot, k.hash)
	}
	VfSetHot(hot...)
	vfCleanDir(dir)
	vfPrimeSkeleton(dir)
	policies := []string{"lazy-remover", "eager-remover"}
	var total, points int
	for _, policy := range policies {
		r := vf8Record(t, hist, dir, modeBefore, policy)
		imgs := vf8Expand(r)
		points += len(r.images)
		total += len(imgs)
		if len(r.acked) == 0 && hist.name != "H3-wrong-hash-cleanup" {
			rep.BrokenHarness("history %s acknowledged nothing", hist.name)
		}
		shard, nshards := vlib.Shard()
		for _, modeAfter := range []string{"zstd", "uncompressed"} {
			for i, img := range imgs {
				if i%nshards != shard {
					continue
				}
				if time.Now().After(deadline) {
					rep.Cap(fmt.Sprintf("time budget after %d of %d images (%s -> %s)", i, len(imgs), modeBefore, modeAfter))
					break
				}
				vf8Check(rep, hist, dir, img, modeBefore, modeAfter, policy)
			}
		}
		if policy == policies[0] {
			var pts []string
			for _, im := range r.images {
				pts = append(pts, im.point)
			}
			rep.Sample(map[string]interface{}{"history": hist.name, "mode": modeBefore, "kill_points": pts, "crash_images_incl_torn": len(imgs)})
		}
	}
	if sampled {
		rep.Extra["long_appends"] = "files appended by more than 1 KiB between two points: torn lengths only within 64 bytes of both ends and around every 4 KiB multiple"
	}
	rep.Extra["kill_points"] = points
	rep.Extra["crash_images"] = total
	rep.Outcome(fmt.Sprintf("%s %s points=%d images=%d", hist.name, modeBefore, points, total))
}
