package disk

// E1 driver: every interleaving (up to a preemption bound) of small
// concurrent scenarios on one real disk cache, under the controlled
// scheduler. Serves C07 (and the schedule parts of C03/C04/C10/C17).

import (
	"bytes"
	"context"
	"crypto/sha256"
	"encoding/hex"
	"fmt"
	"io"
	"log"
	"os"
	"path/filepath"
	"regexp"
	"sort"
	"strconv"
	"strings"
	"testing"

	"github.com/buchgr/bazel-remote/v2/cache"
	pb "github.com/buchgr/bazel-remote/v2/genproto/build/bazel/remote/execution/v2"
	"github.com/buchgr/bazel-remote/v2/utils/verifhook/vsched"
	"github.com/buchgr/bazel-remote/v2/utils/verifhook/vsem"
	"github.com/buchgr/bazel-remote/v2/verifdrv/vlib"
)

type vfBlob struct {
	hash string
	data []byte
}

func vfMkBlob(tag string, n int, compressible bool) vfBlob {
	d := vlib.Bytes(tag, n, compressible)
	s := sha256.Sum256(d)
	return vfBlob{hash: hex.EncodeToString(s[:]), data: d}
}

type vfOp struct {
	Thread string `json:"t"`
	Op     string `json:"op"`
	Key    string `json:"key"`
	Arg    string `json:"arg,omitempty"`
	Inv    int    `json:"inv"`
	Ret    int    `json:"ret"`
	Res    string `json:"res"`
	off    int64
	// for reads: content hash/len/reported size
	content []byte
	size    int64
	hit     bool
	err     error
}

// vfAdmit is what the harness saw at the admission test of an upload (the
// first read of the backlog counter inside Reserve).
type vfAdmit struct {
	size        int64
	seen        bool
	cur         int64
	counter     int64
	realBacklog int64
}

type vfEnv struct {
	admit       map[string]*vfAdmit
	everIndexed map[string]bool
	t           *testing.T
	sc          *vfScenario
	dir         string
	cc          Cache
	c           *diskCache
	proxy       *vlib.FakeProxy
	clock       int
	hist        []*vfOp
	viol        [][2]string
	values      map[string][][]byte // key -> legal contents (initial + uploaded), filled by scenario
	// uploads acknowledged (key -> list of (inv, ret, ok, content))
	pointChecks int
}

func (e *vfEnv) tick() int { e.clock++; return e.clock }

func (e *vfEnv) violate(key, format string, a ...interface{}) {
	for _, v := range e.viol {
		if v[0] == key {
			return
		}
	}
	e.viol = append(e.viol, [2]string{key, fmt.Sprintf(format, a...)})
}

func vfErrCode(err error) string {
	if err == nil {
		return "ok"
	}
	if ce, ok := err.(*cache.Error); ok {
		return "err" + strconv.Itoa(ce.Code)
	}
	return "err"
}

func (e *vfEnv) put(th string, kind cache.EntryKind, hash string, data []byte) *vfOp {
	op := &vfOp{Thread: th, Op: "put", Key: cache.LookupKey(kind, hash), Inv: e.tick(), content: data}
	e.hist = append(e.hist, op)
	if e.admit == nil {
		e.admit = map[string]*vfAdmit{}
	}
	e.admit[th] = &vfAdmit{size: int64(len(data))}
	err := e.cc.Put(context.Background(), kind, hash, int64(len(data)), bytes.NewReader(data))
	if a := e.admit[th]; a != nil && a.seen && e.sc.hard > 0 {
		refused := err != nil && vfErrCode(err) == "err507"
		if !refused && a.cur+a.realBacklog+a.size > e.sc.hard {
			e.violate("C17 admitted beyond the hard limit", "upload of %d bytes by %s was admitted although accounted %d + files evicted but still on disk %d + new item exceeds the limit %d (backlog counter said %d)", a.size, th, a.cur, a.realBacklog, e.sc.hard, a.counter)
		}
	}
	delete(e.admit, th)
	op.Ret = e.tick()
	op.err = err
	op.Res = vfErrCode(err)
	op.Arg = fmt.Sprintf("%d bytes", len(data))
	return op
}

// get performs a read; size is the size passed to the cache (-1 unknown).
func (e *vfEnv) get(th string, kind cache.EntryKind, hash string, size int64, offset int64, zstd bool) *vfOp {
	op := &vfOp{Thread: th, Op: "get", Key: cache.LookupKey(kind, hash), Inv: e.tick()}
	if zstd {
		op.Op = "getzstd"
	}
	op.Arg = fmt.Sprintf("size=%d off=%d", size, offset)
	op.off = offset
	e.hist = append(e.hist, op)
	var rc io.ReadCloser
	var sz int64
	var err error
	if zstd {
		rc, sz, err = e.cc.GetZstd(context.Background(), hash, size, offset)
	} else {
		rc, sz, err = e.cc.Get(context.Background(), kind, hash, size, offset)
	}
	op.Ret = e.tick() // the read "returns" when the reader is handed out
	op.err = err
	if err != nil {
		op.Res = vfErrCode(err)
		if rc != nil {
			_ = rc.Close()
		}
		return op
	}
	if rc == nil {
		op.Res = "miss"
		return op
	}
	// Let evictions / overwrites happen between obtaining the reader and
	// consuming it.
	vsched.Step("harness.beforeread", "")
	data, rerr := io.ReadAll(rc)
	_ = rc.Close()
	if zstd && rerr == nil {
		data, rerr = vlib.ZstdDecodeAll(data)
	}
	if rerr != nil {
		op.Res = "readerr"
		op.err = rerr
		op.content = data
		op.hit = true
		op.size = sz
		return op
	}
	op.hit = true
	op.content = data
	op.size = sz
	s := sha256.Sum256(data)
	op.Res = fmt.Sprintf("hit:%s:%d:%d", hex.EncodeToString(s[:4]), len(data), sz)
	return op
}

func (e *vfEnv) contains(th string, kind cache.EntryKind, hash string, size int64) *vfOp {
	op := &vfOp{Thread: th, Op: "contains", Key: cache.LookupKey(kind, hash), Inv: e.tick()}
	e.hist = append(e.hist, op)
	ok, sz := e.cc.Contains(context.Background(), kind, hash, size)
	op.Ret = e.tick()
	op.hit = ok
	op.size = sz
	op.Res = fmt.Sprintf("%v:%d", ok, sz)
	return op
}

func (e *vfEnv) findMissing(th string, blobs []vfBlob, sizes []int64) *vfOp {
	op := &vfOp{Thread: th, Op: "findmissing", Inv: e.tick()}
	e.hist = append(e.hist, op)
	ds := make([]*pb.Digest, len(blobs))
	for i, b := range blobs {
		sz := int64(len(b.data))
		if sizes != nil {
			sz = sizes[i]
		}
		ds[i] = &pb.Digest{Hash: b.hash, SizeBytes: sz}
	}
	missing, err := e.cc.FindMissingCasBlobs(context.Background(), ds)
	op.Ret = e.tick()
	op.err = err
	var ms []string
	for _, m := range missing {
		ms = append(ms, m.Hash[:6])
	}
	op.Res = vfErrCode(err) + ":" + strings.Join(ms, ",")
	op.Arg = strings.Join(ms, ",")
	return op
}

type vfScenario struct {
	name     string
	mode     string
	maxSize  int64
	hard     int64
	useProxy bool
	pressure bool // eviction by space pressure is possible
	// commitRefusal: the reservations of other requests can make the index
	// refuse a finished upload (internal error 500, documented behaviour)
	commitRefusal bool
	atomics       bool
	// prelife: an earlier life of the directory under another storage mode
	// (runs on its own cache instance, which is shut down before the one under test starts)
	prelifeMode string
	prelife     func(cc Cache)
	// setup runs free-running before the scheduler takes over.
	setup func(e *vfEnv)
	// threads are the concurrent requests.
	threads []func(e *vfEnv, th string)
	// extra oracle on the finished execution.
	oracle func(e *vfEnv)
	// final reads: keys (kind, blob) that are probed after quiescence.
	finals []vfFinal
}

type vfFinal struct {
	kind cache.EntryKind
	hash string
}

func vfCleanDir(dir string) {
	for p := range VfListFiles(dir) {
		_ = os.Remove(filepath.Join(dir, p))
	}
}

// vfPrimeSkeleton creates the directory skeleton with one real disk.New and
// then enables the fast path for later instances.
func vfPrimeSkeleton(dir string) {
	vsched.SetFastSkeleton("", nil)
	cc, err := New(dir, 1<<20, WithAccessLogger(vlib.SilentLogger()))
	if err != nil {
		panic(err)
	}
	VfShutdown(cc)
	VfFastSkeleton(dir)
}

// vfCleanHot removes the files in the hot sub-directories only; the full
// walk of the checked step guarantees nothing exists elsewhere (a stray file
// elsewhere is reported and then removed by that step).
func vfCleanHot(dir string) {
	for p := range VfListHot(dir) {
		_ = os.Remove(filepath.Join(dir, p))
	}
}

// vfTruncate cuts the on-disk file of key to n bytes, leaving the index
// untouched (a corrupt file on disk).
func (e *vfEnv) truncate(key string, n int64) {
	st := VfSnapshot(e.cc)
	for _, en := range st.Entries {
		if en.Key == key {
			if err := os.Truncate(filepath.Join(e.dir, en.Path), n); err != nil {
				e.t.Fatal(err)
			}
			return
		}
	}
	e.t.Fatalf("truncate: %s not indexed", key)
}

func (e *vfEnv) legal(key string, data []byte) { e.values[key] = append(e.values[key], data) }

// vfRunOne executes scenario sc under the schedule given by prefix.
func vfRunOne(t *testing.T, sc *vfScenario, dir string, prefix []int) *vsched.Execution {
	vfCleanHot(dir)
	e := &vfEnv{t: t, sc: sc, dir: dir, values: map[string][][]byte{}, everIndexed: map[string]bool{}}
	opts := []Option{WithStorageMode(sc.mode), WithAccessLogger(vlib.SilentLogger())}
	if sc.hard > 0 {
		opts = append(opts, WithMaxSizeHardLimit(sc.hard))
	}
	if sc.useProxy {
		e.proxy = vlib.NewFakeProxy()
		opts = append(opts, WithProxyBackend(e.proxy))
	}
	if sc.prelifeMode != "" {
		pc, err := New(dir, sc.maxSize, WithStorageMode(sc.prelifeMode), WithAccessLogger(vlib.SilentLogger()))
		if err != nil {
			t.Fatalf("disk.New (earlier life): %v", err)
		}
		VfSeedTempfiles(4711)
		sc.prelife(pc)
		VfDrain(pc)
		VfShutdown(pc)
	}
	cc, err := New(dir, sc.maxSize, opts...)
	if err != nil {
		t.Fatalf("disk.New: %v", err)
	}
	e.cc, e.c = cc, vfUnwrap(cc)
	VfSeedTempfiles(12345)
	if sc.setup != nil {
		sc.setup(e)
	}
	if !VfDrain(cc) {
		t.Fatal("setup: eviction backlog did not drain")
	}
	e.hist = nil
	e.clock = 0
	VfSeedTempfiles(777)
	for _, en := range VfSnapshot(cc).Entries {
		e.everIndexed[en.Path] = true
	}

	s := vsched.New(prefix)
	s.AtomicPoints = sc.atomics
	s.Observer = func(th, op, detail string) {
		// every scheduling point outside critical sections: the index must
		// be structurally sound and the accounting equation must hold.
		if e.c.mu.VfOwned() {
			return // inside a critical section (atomic point)
		}
		st := e.c.vfSnapshotLocked()
		for _, en := range st.Entries {
			e.everIndexed[en.Path] = true
		}
		e.pointChecks++
		for _, p := range VfAccounting(st, -1) {
			e.violate("C03@point "+vfGeneric(p), "at point %s:%s %s: %s", th, op, detail, p)
		}
	}
	s.Resumed = func(th, op, detail string) {
		// The first read of the backlog counter by an upload is its
		// admission test: note what is really still on disk at the very
		// instant it is performed.
		a := e.admit[th]
		if a == nil || a.seen || op != "atomic.load" {
			return
		}
		a.seen = true
		st := e.c.vfSnapshotLocked()
		a.cur, a.counter = st.CurrentSize, st.QueuedBytes
		indexed := map[string]bool{}
		for _, en := range st.Entries {
			indexed[en.Path] = true
			e.everIndexed[en.Path] = true
		}
		for rel, sz := range VfListHot(e.dir) {
			if !indexed[rel] && e.everIndexed[rel] {
				a.realBacklog += sz
			}
		}
	}
	s.Install()
	adopted := s.AdoptNext("evict.recv", "EV")
	VfKickEvictor(cc)
	<-adopted
	VfUnkick(cc)
	for i, fn := range sc.threads {
		th := fmt.Sprintf("T%d", i+1)
		fn := fn
		s.Spawn(th, func() { fn(e, th) })
	}
	s.Run()
	x := &vsched.Execution{Points: s.Points, Trace: s.Trace, Deadlock: s.Deadlock, Divergence: s.Divergence}
	s.Close()
	if x.Deadlock {
		// threads are stuck holding who-knows-what; do not touch the cache.
		x.Outcome = "deadlock"
		return x
	}

	// ---- quiescence: C03 / C04 ----
	st := VfSnapshot(cc)
	for _, p := range VfAccounting(st, 0) {
		e.violate("C03@quiescence "+vfGeneric(p), "after all requests finished: %s", p)
	}
	if len(st.Queued) != 0 || st.QueuedBytes != 0 {
		e.violate("evictor-backlog", "remover idle but backlog remains: %d entries, %d bytes", len(st.Queued), st.QueuedBytes)
	}
	for _, p := range VfDirectory(cc, st) {
		e.violate("C04@quiescence "+vfGeneric(p), "after all requests finished and deletions drained: %s", p)
	}
	e.checkHistory()
	// ---- final probes ----
	for _, f := range sc.finals {
		op := e.get("FIN", f.kind, f.hash, -1, 0, false)
		e.checkRead(op, true)
	}
	vfRunEvictorInline(e.c)
	st = VfSnapshot(cc)
	for _, p := range VfAccounting(st, 0) {
		e.violate("C03@final "+vfGeneric(p), "after final probes: %s", p)
	}
	for _, p := range VfDirectoryHot(cc, st) {
		e.violate("C04@final "+vfGeneric(p), "after final probes: %s", p)
	}
	if sc.oracle != nil {
		sc.oracle(e)
	}
	if e.c.containsQueue != nil {
		close(e.c.containsQueue)
	}
	var parts []string
	for _, op := range e.hist {
		parts = append(parts, op.Thread+"."+op.Op+"="+op.Res)
	}
	x.Outcome = strings.Join(parts, " ")
	x.Violations = e.viol
	return x
}

// vfGeneric removes numbers and hashes from a message so that it can serve
// as a violation class.
func vfGeneric(s string) string {
	s = vfKeyRe.ReplaceAllString(s, "$1/H")
	s = vfHexRe.ReplaceAllString(s, "H")
	s = vfNumRe.ReplaceAllString(s, "N")
	s = vfListRe.ReplaceAllString(s, "[..]")
	if len(s) > 100 {
		s = s[:100]
	}
	return s
}

var (
	vfKeyRe  = regexp.MustCompile(`\b(cas|ac|raw)/[0-9a-zA-Z.]+`)
	vfHexRe  = regexp.MustCompile(`\b[0-9a-f]{6,}\b`)
	vfNumRe  = regexp.MustCompile(`-?[0-9]+`)
	vfListRe = regexp.MustCompile(`\[[^\]]*\]`)
)

func vfRunEvictorInline(c *diskCache) {
	for {
		select {
		case q := <-c.lru.queuedEvictionsChan:
			for _, kv := range q {
				c.lru.onEvict(kv.key, kv.value)
				c.lru.queuedEvictionsSize.Add(-kv.value.sizeOnDisk)
			}
		default:
			return
		}
	}
}

// checkHistory applies the C07 read oracle to every recorded operation.
func (e *vfEnv) checkHistory() {
	for _, op := range e.hist {
		switch op.Op {
		case "get", "getzstd":
			e.checkRead(op, false)
		case "contains":
			e.checkContains(op)
		case "put":
			if op.err != nil && op.Res != "err507" && !(e.sc.commitRefusal && op.Res == "err500") {
				e.violate("put-error "+op.Res, "well-formed upload %s by %s failed: %v", op.Key[:10], op.Thread, op.err)
			}
		}
	}
}

// ackedBefore reports whether an upload of key was acknowledged before
// instant inv (or the key was validly present initially).
func (e *vfEnv) ackedBefore(key string, inv int) bool {
	if e.sc.pressure {
		return false
	}
	for _, p := range e.hist {
		if p.Op == "put" && p.Key == key && p.err == nil && p.Ret < inv {
			return true
		}
	}
	return false
}

func (e *vfEnv) checkRead(op *vfOp, final bool) {
	where := "read"
	if final {
		where = "final read"
	}
	if op.err != nil && !op.hit && e.sc.commitRefusal && e.sc.useProxy && op.Res == "err500" && !final {
		// a backend fetch whose commit the index refuses (other requests' reservations fill the
		// cache) surfaces as an internal error: an error, never wrong content (C12: "miss or error")
		return
	}
	if op.err != nil && !op.hit {
		e.violate("read-error "+op.Res, "%s of %s by %s returned an error: %v", where, op.Key[:10], op.Thread, op.err)
		return
	}
	if !op.hit {
		if e.ackedBefore(op.Key, op.Inv) || (final && e.initialValid(op.Key) && !e.sc.pressure) {
			e.violate("lost-ack "+where, "%s of %s by %s missed although an upload was acknowledged before it started and nothing needed eviction", where, op.Key[:10], op.Thread)
		}
		return
	}
	if op.Res == "readerr" {
		e.violate("read-stream-error", "%s of %s by %s: stream failed after %d bytes: %v", where, op.Key[:10], op.Thread, len(op.content), op.err)
		return
	}
	// hit: must be the complete bytes of one upload not wholly after the read
	okVal := false
	var full int64 = -1
	match := func(v []byte) {
		if int64(len(v)) >= op.off && bytes.Equal(v[op.off:], op.content) {
			okVal = true
			full = int64(len(v))
		}
	}
	for _, v := range e.values[op.Key] {
		match(v)
	}
	for _, p := range e.hist {
		if p.Op == "put" && p.Key == op.Key && p.Inv < op.Ret {
			match(p.content)
		}
	}
	if !okVal {
		e.violate("wrong-content "+where, "%s of %s by %s returned %d bytes that are not the complete value of any upload to that key that began before the read returned", where, op.Key[:10], op.Thread, len(op.content))
	}
	if strings.HasPrefix(op.Key, "cas/") && op.off == 0 {
		s := sha256.Sum256(op.content)
		if hex.EncodeToString(s[:]) != op.Key[4:] {
			e.violate("digest-mismatch "+where, "%s of %s returned bytes with another SHA-256", where, op.Key[:10])
		}
	}
	if okVal && op.size != full {
		e.violate("wrong-size "+where, "%s of %s reported size %d but the value has %d bytes", where, op.Key[:10], op.size, full)
	}
}

func (e *vfEnv) initialValid(key string) bool { return len(e.values[key]) > 0 }

func (e *vfEnv) checkContains(op *vfOp) {
	if !op.hit && e.ackedBefore(op.Key, op.Inv) {
		e.violate("lost-ack contains", "existence check of %s by %s said absent although an upload was acknowledged before it started and nothing needed eviction", op.Key[:10], op.Thread)
	}
	if op.hit {
		ok := len(e.values[op.Key]) > 0
		for _, p := range e.hist {
			if p.Op == "put" && p.Key == op.Key && p.Inv < op.Ret {
				ok = true
			}
		}
		if !ok {
			e.violate("phantom contains", "existence check of %s said present but nothing was ever uploaded", op.Key[:10])
		}
	}
}

// ---- the scenarios ----

func vfScenarios() []*vfScenario {
	var out []*vfScenario
	for _, mode := range []string{"zstd", "uncompressed"} {
		mode := mode
		A := vfMkBlob("A", 3000, true)
		B := vfMkBlob("B", 3000, true)
		C := vfMkBlob("C", 3000, true)
		v1 := vlib.Bytes("ac-v1", 100, false)
		v2 := vlib.Bytes("ac-v2", 5000, false)
		ack := strings.Repeat("ab", 32)

		putCAS := func(b vfBlob) func(*vfEnv, string) {
			return func(e *vfEnv, th string) { e.put(th, cache.CAS, b.hash, b.data) }
		}
		getCAS := func(b vfBlob, size int64) func(*vfEnv, string) {
			return func(e *vfEnv, th string) { e.get(th, cache.CAS, b.hash, size, 0, false) }
		}

		out = append(out, &vfScenario{name: "S1-put-get-get/" + mode, mode: mode, maxSize: 1 << 20,
			threads: []func(*vfEnv, string){putCAS(A), getCAS(A, int64(len(A.data))), getCAS(A, -1)},
			finals:  []vfFinal{{cache.CAS, A.hash}}})

		out = append(out, &vfScenario{name: "S2-ac-overwrite/" + mode, mode: mode, maxSize: 1 << 20,
			setup: func(e *vfEnv) {
				e.put("SETUP", cache.AC, ack, v1)
				e.legal("ac/"+ack, v1)
			},
			threads: []func(*vfEnv, string){
				func(e *vfEnv, th string) { e.put(th, cache.AC, ack, v2) },
				func(e *vfEnv, th string) { e.get(th, cache.AC, ack, -1, 0, false) },
				func(e *vfEnv, th string) { e.contains(th, cache.AC, ack, -1) },
			},
			finals: []vfFinal{{cache.AC, ack}}})

		out = append(out, &vfScenario{name: "S3-evict-vs-read/" + mode, mode: mode, maxSize: 8192, pressure: true,
			setup: func(e *vfEnv) {
				e.put("SETUP", cache.CAS, A.hash, A.data)
				e.put("SETUP", cache.CAS, B.hash, B.data)
				e.legal("cas/"+A.hash, A.data)
				e.legal("cas/"+B.hash, B.data)
			},
			threads: []func(*vfEnv, string){putCAS(C), getCAS(A, int64(len(A.data))), getCAS(B, -1)},
			finals:  []vfFinal{{cache.CAS, A.hash}, {cache.CAS, B.hash}, {cache.CAS, C.hash}}})

		if mode == "zstd" {
			corrupt := func(e *vfEnv) {
				e.put("SETUP", cache.CAS, A.hash, A.data)
				e.truncate("cas/"+A.hash, 40)
			}
			out = append(out, &vfScenario{name: "S4-corrupt-get-get/" + mode, mode: mode, maxSize: 1 << 20,
				setup:   corrupt,
				threads: []func(*vfEnv, string){getCAS(A, int64(len(A.data))), getCAS(A, -1)},
				finals:  []vfFinal{{cache.CAS, A.hash}}})
			out = append(out, &vfScenario{name: "S5-corrupt-get-put/" + mode, mode: mode, maxSize: 1 << 20,
				setup:   corrupt,
				threads: []func(*vfEnv, string){getCAS(A, int64(len(A.data))), putCAS(A)},
				finals:  []vfFinal{{cache.CAS, A.hash}}})
			out = append(out, &vfScenario{name: "S6-corrupt-get-evict-reput/" + mode, mode: mode, maxSize: 8192, pressure: true,
				setup: func(e *vfEnv) {
					corrupt(e)
					e.put("SETUP", cache.CAS, B.hash, B.data)
					e.legal("cas/"+B.hash, B.data)
				},
				threads: []func(*vfEnv, string){
					getCAS(A, int64(len(A.data))),
					func(e *vfEnv, th string) {
						e.put(th, cache.CAS, C.hash, C.data) // evicts A (LRU)
						e.put(th, cache.CAS, A.hash, A.data) // re-upload
					},
				},
				finals: []vfFinal{{cache.CAS, A.hash}, {cache.CAS, B.hash}, {cache.CAS, C.hash}}})
		}

		out = append(out, &vfScenario{name: "S7-three-puts-tight/" + mode, mode: mode, maxSize: 8192, pressure: true,
			threads: []func(*vfEnv, string){putCAS(A), putCAS(B), putCAS(C)},
			finals:  []vfFinal{{cache.CAS, A.hash}, {cache.CAS, B.hash}, {cache.CAS, C.hash}}})

		// C17: hard limit with the remover arbitrarily delayed. Two blocks fit;
		// the limit allows one block of not-yet-deleted files.
		D := vfMkBlob("D", 3000, true)
		for _, hl := range []struct {
			tag  string
			hard int64
		}{{"unset", 0}, {"max", 8192}, {"max+1blk", 12288}, {"max+2blk", 16384}} {
			hl := hl
			out = append(out, &vfScenario{name: "S17-hardlimit-" + hl.tag + "/" + mode, mode: mode, maxSize: 8192, hard: hl.hard, pressure: true, atomics: true,
				setup: func(e *vfEnv) {
					e.put("SETUP", cache.CAS, A.hash, A.data)
					e.put("SETUP", cache.CAS, B.hash, B.data)
					e.legal("cas/"+A.hash, A.data)
					e.legal("cas/"+B.hash, B.data)
				},
				threads: []func(*vfEnv, string){putCAS(C), putCAS(D), func(e *vfEnv, th string) { e.contains(th, cache.CAS, B.hash, int64(len(B.data))) }},
				oracle: func(e *vfEnv) {
					for _, op := range e.hist {
						if op.Op == "put" && op.Res == "err507" {
							if hl.hard == 0 {
								e.violate("C17 refused without hard limit", "upload %s by %s refused with 507 although max_size_hard_limit is not set and reservations (%d+%d) fit in max_size", op.Key[:10], op.Thread, 3000, 3000)
							}
						}
						if op.Op == "put" && op.err != nil && op.Res != "err507" {
							e.violate("C17 refusal with wrong status", "upload refused with %s instead of 507", op.Res)
						}
					}
					// after the backlog drained every refused upload succeeds when
					// retried, provided it fits under the limit next to what is accounted
					for _, op := range e.hist {
						if op.Op == "put" && op.Res == "err507" && op.Thread != "RETRY" {
							st := VfSnapshot(e.cc)
							fits := hl.hard == 0 || st.CurrentSize+st.QueuedBytes+int64(len(op.content)) <= hl.hard
							r := e.put("RETRY", cache.CAS, op.Key[4:], op.content)
							vfRunEvictorInline(e.c)
							if fits && r.err != nil {
								e.violate("C17 retry after drain refused", "upload %s refused again after the deletions caught up (accounted %d, backlog %d, limit %d): %v", op.Key[:10], st.CurrentSize, st.QueuedBytes, hl.hard, r.err)
							}
						}
					}
				},
				finals: []vfFinal{{cache.CAS, A.hash}, {cache.CAS, B.hash}, {cache.CAS, C.hash}, {cache.CAS, D.hash}}})
		}

		// a finished small upload is refused at commit because a large upload
		// in flight holds a reservation close to max_size
		{
			big := vfMkBlob("big8000", 8000, false)
			small := vlib.Bytes("small100", 100, false)
			sk := strings.Repeat("1b", 32)
			out = append(out, &vfScenario{name: "S11-commit-refused-by-reservation/" + mode, mode: mode, maxSize: 8192, pressure: true, commitRefusal: true,
				threads: []func(*vfEnv, string){
					func(e *vfEnv, th string) { e.put(th, cache.RAW, big.hash, big.data) },
					func(e *vfEnv, th string) { e.put(th, cache.AC, sk, small) },
					func(e *vfEnv, th string) { e.contains(th, cache.AC, sk, -1) },
				},
				finals: []vfFinal{{cache.RAW, big.hash}, {cache.AC, sk}}})
		}
		// two overwrites of one key against a reader (ENOENT slow path twice)
		{
			v3 := vlib.Bytes("ac-v3", 700, false)
			out = append(out, &vfScenario{name: "S12-get-vs-two-overwrites/" + mode, mode: mode, maxSize: 1 << 20,
				setup: func(e *vfEnv) {
					e.put("SETUP", cache.AC, ack, v1)
					e.legal("ac/"+ack, v1)
				},
				threads: []func(*vfEnv, string){
					func(e *vfEnv, th string) { e.get(th, cache.AC, ack, -1, 0, false) },
					func(e *vfEnv, th string) { e.put(th, cache.AC, ack, v2) },
					func(e *vfEnv, th string) { e.put(th, cache.AC, ack, v3) },
				},
				finals: []vfFinal{{cache.AC, ack}}})
		}

		// a blob written under the OTHER storage mode in an earlier life of the directory is
		// read while it is uploaded again (the entry changes format under the reader)
		{
			other := map[string]string{"zstd": "uncompressed", "uncompressed": "zstd"}[mode]
			X := vfMkBlob("X-other-format", 5000, true)
			out = append(out, &vfScenario{name: "S13-get-vs-reupload-other-format/" + mode, mode: mode, maxSize: 1 << 20,
				prelifeMode: other,
				prelife: func(pc Cache) {
					_ = pc.Put(context.Background(), cache.CAS, X.hash, int64(len(X.data)), bytes.NewReader(X.data))
				},
				setup: func(e *vfEnv) { e.legal("cas/"+X.hash, X.data) },
				threads: []func(*vfEnv, string){
					func(e *vfEnv, th string) { e.get(th, cache.CAS, X.hash, int64(len(X.data)), 0, false) },
					putCAS(X),
					func(e *vfEnv, th string) { e.get(th, cache.CAS, X.hash, -1, 1, true) },
				},
				finals: []vfFinal{{cache.CAS, X.hash}}})
		}

		// a reader on the ENOENT slow path (its file was replaced under it) while the re-uploaded
		// entry is EVICTED by a third request: a stale list element must not be removed twice
		{
			ack15 := strings.Repeat("a7", 32)
			v15a := vlib.Bytes("s15-v1", 3000, false)
			v15b := vlib.Bytes("s15-v2", 3100, false)
			big15 := vlib.Bytes("s15-big", 7000, false) // two blocks: evicts the one-block entry in a two-block cache
			bk := strings.Repeat("b8", 32)
			out = append(out, &vfScenario{name: "S15-slowpath-get-vs-overwrite-vs-eviction/" + mode, mode: mode, maxSize: 2 * 4096, pressure: true, commitRefusal: true,
				setup: func(e *vfEnv) {
					e.put("SETUP", cache.AC, ack15, v15a)
					e.legal("ac/"+ack15, v15a)
					e.legal("raw/"+bk, big15)
				},
				threads: []func(*vfEnv, string){
					func(e *vfEnv, th string) { e.get(th, cache.AC, ack15, -1, 0, false) },
					func(e *vfEnv, th string) { e.put(th, cache.AC, ack15, v15b) },
					func(e *vfEnv, th string) { e.put(th, cache.RAW, bk, big15) },
				},
				finals: []vfFinal{{cache.AC, ack15}, {cache.RAW, bk}}})
		}

		// the disk-wait semaphore (throttle shared by all uploads and backend fetches) and the index
		// mutex: with a single permit, an upload runs against the once-a-minute cache-age poll and
		// against a second upload; no interleaving may deadlock (lock order: semaphore before mutex)
		{
			ack16 := strings.Repeat("c9", 32)
			v16a := vlib.Bytes("s16-v1", 3000, false)
			v16b := vlib.Bytes("s16-v2", 3100, false)
			k16 := strings.Repeat("da", 32)
			out = append(out, &vfScenario{name: "S16-semaphore-vs-metrics-poll/" + mode, mode: mode, maxSize: 1 << 20,
				setup: func(e *vfEnv) {
					e.put("SETUP", cache.AC, ack16, v16a)
					e.legal("ac/"+ack16, v16a)
					e.legal("ac/"+ack16, v16b)
					e.legal("raw/"+k16, v16a)
					e.c.diskWaitSem = vsem.NewWeighted(1)
				},
				threads: []func(*vfEnv, string){
					func(e *vfEnv, th string) { e.put(th, cache.AC, ack16, v16b) },
					func(e *vfEnv, th string) { e.c.updateCacheAgeMetric() },
					func(e *vfEnv, th string) { e.put(th, cache.RAW, k16, v16a) },
				},
				finals: []vfFinal{{cache.AC, ack16}, {cache.RAW, k16}}})
		}

		// an overwrite that arrives WITHOUT a reservation of its own (a backend fetch of unknown
		// size commits) while another upload's reservation nearly fills the cache and a third
		// request uploads the same key: the index may have to evict the very entry it overwrites
		{
			ack14 := strings.Repeat("e4", 32)
			big14 := vlib.Bytes("s14-backend-value", 12289, false) // 4 blocks
			small14 := vlib.Bytes("s14-upload", 5000, false)       // 2 blocks
			x14 := vlib.Bytes("s14-x", 28000, false)               // reserves 7 blocks of 10
			xk := strings.Repeat("f5", 32)
			out = append(out, &vfScenario{name: "S14-unreserved-overwrite-under-reservation/" + mode, mode: mode, maxSize: 10 * 4096, useProxy: true, commitRefusal: true, pressure: true,
				setup: func(e *vfEnv) {
					e.proxy.Set(cache.AC, ack14, big14, int64(len(big14)))
					e.legal("ac/"+ack14, big14)
					e.legal("ac/"+ack14, small14)
					e.legal("raw/"+xk, x14)
				},
				threads: []func(*vfEnv, string){
					func(e *vfEnv, th string) { e.put(th, cache.RAW, xk, x14) },
					func(e *vfEnv, th string) { e.get(th, cache.AC, ack14, -1, 0, false) },
					func(e *vfEnv, th string) { e.put(th, cache.AC, ack14, small14) },
				},
				finals: []vfFinal{{cache.AC, ack14}, {cache.RAW, xk}}})
		}

		// C10: FindMissing over 25 digests (two internal batches) while two of
		// them are being uploaded.
		{
			var fm []vfBlob
			for i := 0; i < 25; i++ {
				fm = append(fm, vfMkBlob(fmt.Sprintf("fm%d", i), 100+i, true))
			}
			out = append(out, &vfScenario{name: "S9-findmissing-vs-puts/" + mode, mode: mode, maxSize: 1 << 20,
				setup: func(e *vfEnv) {
					for i, b := range fm {
						if i == 3 || i == 22 || i == 10 || i == 24 {
							continue
						}
						e.put("SETUP", cache.CAS, b.hash, b.data)
						e.legal("cas/"+b.hash, b.data)
					}
				},
				threads: []func(*vfEnv, string){
					func(e *vfEnv, th string) { e.findMissing(th, fm, nil) },
					putCAS(fm[3]),
					putCAS(fm[22]),
				},
				oracle: func(e *vfEnv) {
					for _, op := range e.hist {
						if op.Op != "findmissing" {
							continue
						}
						if op.err != nil {
							e.violate("C10 findmissing failed", "FindMissing failed: %v", op.err)
							continue
						}
						got := strings.Split(op.Arg, ",")
						if op.Arg == "" {
							got = nil
						}
						idx := map[string]int{}
						for i, b := range fm {
							idx[b.hash[:6]] = i
						}
						last := -1
						seen := map[int]bool{}
						for _, g := range got {
							i, ok := idx[g]
							if !ok {
								e.violate("C10 unknown digest reported", "FindMissing reported a digest that was not requested: %s", g)
								continue
							}
							if i <= last {
								e.violate("C10 order not preserved", "missing digests not in request order: %v", got)
							}
							last = i
							seen[i] = true
							if i != 3 && i != 22 && i != 10 && i != 24 {
								e.violate("C10 present blob reported missing", "blob #%d was present throughout the call but is reported missing (%v)", i, got)
							}
						}
						for _, i := range []int{10, 24} {
							if !seen[i] {
								e.violate("C10 absent blob reported present", "blob #%d was absent throughout the call but is not reported missing (%v)", i, got)
							}
						}
					}
				},
				finals: []vfFinal{{cache.CAS, fm[3].hash}, {cache.CAS, fm[22].hash}, {cache.CAS, fm[0].hash}}})
		}

		out = append(out, &vfScenario{name: "S10-contains-vs-overwrite/" + mode, mode: mode, maxSize: 1 << 20,
			setup: func(e *vfEnv) {
				e.put("SETUP", cache.CAS, A.hash, A.data)
				e.legal("cas/"+A.hash, A.data)
			},
			threads: []func(*vfEnv, string){
				putCAS(A),
				func(e *vfEnv, th string) { e.contains(th, cache.CAS, A.hash, int64(len(A.data))) },
				func(e *vfEnv, th string) { e.get(th, cache.CAS, A.hash, int64(len(A.data)), 1, true) },
			},
			finals: []vfFinal{{cache.CAS, A.hash}}})
	}
	return out
}

func TestVfE1(t *testing.T) {
	log.SetOutput(io.Discard)
	rep := vlib.NewReport(vlib.Param("PROPERTY", "C07"), "E1:"+vlib.Param("SCENARIO", "?"))
	defer rep.Write()
	want := vlib.Param("SCENARIO", "")
	var sc *vfScenario
	var names []string
	for _, s := range vfScenarios() {
		names = append(names, s.name)
		if s.name == want {
			sc = s
		}
	}
	if sc == nil {
		rep.BrokenHarness("unknown scenario %q; have %v", want, names)
		return
	}
	dir := filepath.Join(os.Getenv("VERIF_SCRATCH"), "cache")
	var hot []string
	for _, f := range sc.finals {
		hot = append(hot, f.hash)
	}
	if strings.HasPrefix(sc.name, "S9-") {
		hot = nil // many keys: list every directory
	}
	VfSetHot(hot...)
	vfCleanDir(dir)
	vfPrimeSkeleton(dir)
	bound, _ := strconv.Atoi(vlib.Param("BOUND", "2"))
	shard, nshards := vlib.Shard()

	if rp := vlib.Param("REPLAY", ""); rp != "" {
		var choices []int
		for _, f := range strings.Split(rp, ",") {
			if f != "" {
				n, _ := strconv.Atoi(f)
				choices = append(choices, n)
			}
		}
		x := vfRunOne(t, sc, dir, choices)
		rep.Eval()
		rep.Sample(map[string]interface{}{"scenario": sc.name, "choices": choices, "trace": x.Trace, "outcome": x.Outcome})
		for _, v := range x.Violations {
			rep.Violate(rep.Property+" "+sc.name+" "+v[0], v[1], map[string]interface{}{"scenario": sc.name, "choices": choices, "trace": x.Trace})
		}
		return
	}

	ex := &vsched.Explorer{Bound: bound, Shard: shard, NShards: nshards, Deadline: vlib.Deadline(),
		Run: func(prefix []int) *vsched.Execution { return vfRunOne(t, sc, dir, prefix) }}
	ex.Explore()
	rep.Evaluations = ex.Executions
	rep.States = ex.ChoicePoints + ex.Executions
	rep.Transitions = ex.ChoicePoints
	for o, n := range ex.Outcomes {
		rep.Outcomes[sc.name+": "+o] = n
		rep.Nontrivial(sc.name + o)
	}
	rep.Extra["by_preemptions"] = ex.ByPreempt
	rep.Extra["bound"] = bound
	rep.Extra["max_choice_points"] = ex.MaxPoints
	rep.Extra["runs_including_shared_prefixes"] = ex.AllRuns
	if ex.Capped != "" {
		rep.Cap(ex.Capped)
	}
	sortFound(ex.Found)
	for _, f := range ex.Found {
		if f.Key == "HARNESS-DIVERGENCE" {
			rep.BrokenHarness("replay divergence in %s: %s (choices %v)", sc.name, f.Desc, f.Choices)
			continue
		}
		// confirm by replaying twice
		same := true
		for i := 0; i < 2; i++ {
			x := vfRunOne(t, sc, dir, f.Choices)
			found := false
			for _, v := range x.Violations {
				if v[0] == f.Key {
					found = true
				}
			}
			if x.Deadlock && f.Key == "deadlock" {
				found = true
			}
			if !found {
				same = false
			}
		}
		if !same {
			rep.BrokenHarness("violation %q in %s did not reproduce on replay of %v", f.Key, sc.name, f.Choices)
			continue
		}
		if pf := vlib.Param("ORACLE", ""); pf != "" && !strings.HasPrefix(f.Key, pf) {
			continue
		}
		rep.Violate(rep.Property+" "+sc.name+" "+f.Key, f.Desc, map[string]interface{}{
			"scenario": sc.name, "choices": f.Choices, "preemptions": f.Preemptions, "trace": f.Trace})
	}
	if len(ex.Found) == 0 {
		// a written-out sample: the default schedule
		x := vfRunOne(t, sc, dir, nil)
		rep.Sample(map[string]interface{}{"scenario": sc.name, "choices": vsched.Choices(x.Points), "trace_head": head(x.Trace, 40), "outcome": x.Outcome})
	}
}

func head(s []string, n int) []string {
	if len(s) > n {
		return s[:n]
	}
	return s
}

func sortFound(f []vsched.Found) {
	sort.Slice(f, func(i, j int) bool { return f[i].Preemptions < f[j].Preemptions })
}
