package disk

// C04 / C03 from NON-INITIAL states: the directory was populated by an
// earlier run of the cache - under either storage mode - and the cache is
// restarted on it under either storage mode; then explicit-state BFS over
// operation sequences (the E2-cache alphabet: uploads good and failing,
// overwrites, reads, existence checks, uploads that evict) with the
// model-free invariants checked after every transition once the remover has
// drained: directory == index (no file of an evicted or overwritten entry
// survives, under whichever name it was written), accounting equation,
// reserved == 0.

import (
	"context"
	"fmt"
	"io"
	"log"
	"os"
	"path/filepath"
	"strconv"
	"strings"
	"testing"
	"time"

	"github.com/buchgr/bazel-remote/v2/verifdrv/vlib"
)

func TestVfC04Restart(t *testing.T) {
	log.SetOutput(io.Discard)
	prop := vlib.Param("PROPERTY", "C04")
	depth, _ := strconv.Atoi(vlib.Param("DEPTH", "2"))
	const maxBlocks = 4
	max := int64(maxBlocks) * BlockSize
	rep := vlib.NewReport(prop, "E2-restart:"+vlib.Param("CONFIG", "all"))
	defer rep.Write()
	dir := filepath.Join(os.Getenv("VERIF_SCRATCH"), "cache")
	shard, nshards := vlib.Shard()
	deadline := vlib.Deadline()
	// earlier lives of the directory: names from the E2 alphabet
	prepops := [][]string{
		{"put(cas,a)"},
		{"put(cas,a)", "put(cas,z)"},
		{"put(cas,z)", "put(ac,k,v1)", "put(cas,a)"},
		{"put(cas,a)", "put(raw,k,w1)", "put(cas,b)"},
		{"put(raw,k,empty)", "put(cas,a)"},
	}
	cell := 0
	for _, before := range []string{"zstd", "uncompressed"} {
		for _, after := range []string{"zstd", "uncompressed"} {
			alphabet := vfCAlphabet(after, max, false)
			byName := map[string]*vfCOp{}
			var hot []string
			for _, o := range vfCAlphabet(before, max, false) {
				byName[o.name] = o
				if o.key.hash != "" {
					hot = append(hot, o.key.hash)
				}
			}
			VfSetHot(hot...)
			vfCleanDir(dir)
			vfPrimeSkeleton(dir)
			for pi, pre := range prepops {
				cell++
				if cell%nshards != shard {
					continue
				}
				cfg := fmt.Sprintf("written under %s [%s], restarted under %s, max_size=%d", before, strings.Join(pre, " ; "), after, max)
				// build: earlier life, restart, then path
				build := func(path []int) *vfCSys {
					a := vfNewCSys(dir, before, max, false) // cleans the hot directories first
					for _, n := range pre {
						a.run(byName[n])
					}
					VfDrain(a.cc)
					VfShutdown(a.cc)
					opts := []Option{WithStorageMode(after), WithAccessLogger(vlib.SilentLogger())}
					cc, err := New(dir, max, opts...)
					if err != nil {
						panic(err)
					}
					s := &vfCSys{dir: dir, mode: after, max: max, m: &vfCModel{content: map[string][]byte{}, backend: map[string][]byte{}}}
					s.cc, s.c = cc, vfUnwrap(cc)
					for _, i := range path {
						s.run(alphabet[i])
					}
					return s
				}
				check := func(s *vfCSys, path []int) string {
					var names []string
					for _, i := range path {
						names = append(names, alphabet[i].name)
					}
					drained := VfDrain(s.cc)
					st := VfSnapshot(s.cc)
					var bad []string
					if !drained {
						bad = append(bad, "C04 deletion backlog did not drain")
					}
					for _, p := range VfAccounting(st, 0) {
						bad = append(bad, "C03 "+p)
					}
					for _, p := range VfDirectoryHot(s.cc, st) {
						bad = append(bad, "C04 "+p)
					}
					for _, b := range bad {
						if b[:3] != prop && !(prop == "C04" && b[:3] == "C03") {
							continue
						}
						rep.Violate(prop+" after restart "+vfGeneric(b), fmt.Sprintf("%s, then [%s]: %s", cfg, strings.Join(names, " ; "), b),
							map[string]interface{}{"engine": "E2-restart", "before": before, "after": after, "earlier_life": pre, "path": names})
					}
					// state key: index + directory
					var sb strings.Builder
					for _, e := range st.Entries {
						fmt.Fprintf(&sb, "%s:%d:%d:%v|", e.Key, e.Size, e.SizeOnDisk, e.Legacy)
					}
					return sb.String()
				}
				seen := map[string]bool{}
				frontier := [][]int{{}}
				{
					s := build(nil)
					seen[check(s, nil)] = true
					s.close()
				}
				var states, transitions int64
				for d := 0; d < depth && len(frontier) > 0; d++ {
					var next [][]int
				outer:
					for _, p := range frontier {
						for i := range alphabet {
							if time.Now().After(deadline) {
								rep.Cap(fmt.Sprintf("time budget at depth %d (%s)", d+1, cfg))
								next = nil
								break outer
							}
							np := append(append([]int(nil), p...), i)
							s := build(np)
							transitions++
							rep.Eval()
							k := check(s, np)
							s.close()
							if !seen[k] {
								seen[k] = true
								states++
								rep.Nontrivial(fmt.Sprintf("%s/%s/%d/%s", before, after, pi, k))
								next = append(next, np)
							}
						}
					}
					frontier = next
				}
				rep.States += states
				rep.Transitions += transitions
				rep.TracesValid += transitions
				rep.Outcome(fmt.Sprintf("%s->%s prepop %d: %d states", before, after, pi, states))
			}
		}
	}
	rep.Extra["depth"] = depth
	rep.Sample(map[string]interface{}{"engine": "E2-restart", "earlier_lives": prepops, "modes": "zstd/uncompressed x zstd/uncompressed", "depth": depth})
	_ = context.Background
}
