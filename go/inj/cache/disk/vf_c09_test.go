package disk

// C09: starting on any directory produced by this or an earlier release, with
// any max_size, succeeds; what fits survives with unchanged content; the
// surplus is evicted oldest-atime first; survivors are later evicted in that
// order; accounting matches the directory.
// Exhaustive over a small grammar of directory populations (not random).

import (
	"bytes"
	"context"
	"fmt"
	"io"
	"log"
	"os"
	"path/filepath"
	"sort"
	"strconv"
	"strings"
	"testing"
	"time"

	"github.com/buchgr/bazel-remote/v2/cache"
	"github.com/buchgr/bazel-remote/v2/utils/verifhook/vsched"
	"github.com/buchgr/bazel-remote/v2/verifdrv/vlib"
)

type vf9Kind struct {
	name   string
	kind   cache.EntryKind
	layout string // v2, v2v1, flat, twolevel
}

var vf9Kinds = []vf9Kind{
	{"v2-cas-zstd", cache.CAS, "v2"},
	{"v2-cas-v1", cache.CAS, "v2v1"},
	{"v2-ac", cache.AC, "v2"},
	{"v2-raw", cache.RAW, "v2"},
	{"flat-cas", cache.CAS, "flat"},
	{"two-level-cas", cache.CAS, "twolevel"},
	{"flat-ac", cache.AC, "flat"},
	{"two-level-ac", cache.AC, "twolevel"},
	{"flat-raw", cache.RAW, "flat"},
	{"two-level-raw", cache.RAW, "twolevel"},
}

// "3blkZ": three blocks of (almost) zeros: stored compressed it occupies one block on disk,
// so it FITS where its logical size does not
var vf9Sizes = map[string]int{"1B": 1, "1blk": 4096, "3blk": 3 * 4096, "3blkZ": 3 * 4096}

type vf9Entry struct {
	kind    vf9Kind
	size    string
	content []byte
	hash    string
	rel     string // path written, relative to the cache dir
	key     string // lookup key after migration
	onDisk  int64
	suffix  string
}

func (e vf9Entry) String() string { return e.kind.name + "/" + e.size }

var vf9Ctr int

func vf9Make(k vf9Kind, size string, suffix string) vf9Entry {
	vf9Ctr++
	n := vf9Sizes[size]
	content := vlib.Bytes(fmt.Sprintf("c09/%d/%s/%s", vf9Ctr, k.name, size), n, false)
	if strings.HasSuffix(size, "Z") {
		content = vlib.Zeros(n)
		copy(content[n-20:], vlib.Bytes(fmt.Sprintf("c09z/%d", vf9Ctr), 20, false))
	}
	e := vf9Entry{kind: k, size: size, content: content, suffix: suffix}
	if k.kind == cache.CAS {
		e.hash = vlib.Sha(content)
	} else {
		e.hash = vlib.Sha([]byte(fmt.Sprintf("key-%d", vf9Ctr)))
	}
	e.key = cache.LookupKey(k.kind, e.hash)
	if suffix == "" {
		e.suffix = []string{"123456", "aBc9Z", "000111222"}[vf9Ctr%3]
	}
	return e
}

// fileBytes returns the bytes to place on disk and the relative path.
func (e *vf9Entry) place() []byte {
	ks := e.kind.kind.String() // "cas","ac","raw"
	data := e.content
	switch e.kind.layout {
	case "v2":
		if e.kind.kind == cache.CAS {
			data = vlib.EncodeCasBlob(e.content, 1<<20, true)
			e.rel = fmt.Sprintf("%s.v2/%s/%s-%d-%s", ks, e.hash[:2], e.hash, len(e.content), e.suffix)
		} else {
			e.rel = fmt.Sprintf("%s.v2/%s/%s-%s", ks, e.hash[:2], e.hash, e.suffix)
		}
	case "v2v1":
		e.rel = fmt.Sprintf("%s.v2/%s/%s-%s.v1", ks, e.hash[:2], e.hash, e.suffix)
	case "flat":
		e.rel = fmt.Sprintf("%s/%s", ks, e.hash)
	case "twolevel":
		e.rel = fmt.Sprintf("%s/%s/%s", ks, e.hash[:2], e.hash)
	}
	e.onDisk = int64(len(data))
	return data
}

type vf9Pop struct {
	entries []vf9Entry // in ascending atime order (oldest first)
	extras  []string   // lost+found dirs, .DS_Store files (relative)
	name    string
	step    time.Duration // distance between consecutive access times (0: one hour)
}

func vf9Reset(dir string) {
	_ = os.RemoveAll(dir)
	_ = os.MkdirAll(dir, 0o755)
}

func vf9Write(dir string, p *vf9Pop) error {
	base := time.Now().Add(-1000 * time.Hour).Truncate(time.Second)
	for i := range p.entries {
		e := &p.entries[i]
		data := e.place()
		full := filepath.Join(dir, e.rel)
		if err := os.MkdirAll(filepath.Dir(full), 0o755); err != nil {
			return err
		}
		if err := os.WriteFile(full, data, 0o644); err != nil {
			return err
		}
		step := p.step
		if step == 0 {
			step = time.Hour
		}
		at := base.Add(time.Duration(i) * step)
		if err := os.Chtimes(full, at, at); err != nil {
			return err
		}
	}
	for _, x := range p.extras {
		full := filepath.Join(dir, x)
		if strings.HasSuffix(strings.ToLower(x), ".ds_store") {
			_ = os.MkdirAll(filepath.Dir(full), 0o755)
			_ = os.WriteFile(full, []byte("x"), 0o644)
		} else {
			_ = os.MkdirAll(full, 0o755)
		}
	}
	return nil
}

// vf9Simulate: file-level simulation of the statement. Returns the set of
// surviving entry indices (ascending atime) for max.
func vf9Simulate(p *vf9Pop, max int64) []int {
	type it struct {
		idx int
		r   int64
	}
	var keep []it
	var cur int64
	for i, e := range p.entries {
		r := vfRound(e.onDisk)
		if r > max {
			continue // larger than the whole cache: dropped, displaces nothing
		}
		for cur+r > max && len(keep) > 0 {
			cur -= keep[0].r
			keep = keep[1:]
		}
		keep = append(keep, it{i, r})
		cur += r
	}
	var out []int
	for _, k := range keep {
		out = append(out, k.idx)
	}
	return out
}

func vf9Read(cc Cache, e vf9Entry, knownSize bool) ([]byte, int64, error) {
	size := int64(-1)
	if knownSize {
		size = int64(len(e.content))
	}
	rc, sz, err := cc.Get(context.Background(), e.kind.kind, e.hash, size, 0)
	if err != nil {
		return nil, sz, err
	}
	if rc == nil {
		return nil, sz, nil
	}
	defer rc.Close()
	b, err := io.ReadAll(rc)
	return b, sz, err
}

func vf9RunOne(rep *vlib.Report, dir string, p *vf9Pop, max int64, maxName, mode string) {
	rep.Eval()
	vf9Reset(dir)
	if err := vf9Write(dir, p); err != nil {
		rep.BrokenHarness("cannot write population: %v", err)
		return
	}
	var names []string
	for _, e := range p.entries {
		names = append(names, e.String())
	}
	id := fmt.Sprintf("population=[%s]%s max_size=%s(%d) mode=%s", strings.Join(names, " < "), strings.Join(p.extras, ","), maxName, max, mode)
	var kinds []string
	for _, e := range p.entries {
		kinds = append(kinds, e.kind.layout+"-"+e.kind.kind.String())
	}
	sort.Strings(kinds)
	keyBase := fmt.Sprintf("C09 max_size=%s", maxName)
	replay := map[string]interface{}{"population": names, "extras": p.extras, "max_size": max, "max_size_class": maxName, "mode": mode}
	cc, err := New(dir, max, WithStorageMode(mode), WithAccessLogger(vlib.SilentLogger()))
	if err != nil {
		msg := err.Error()
		cls := "startup fails"
		if strings.Contains(msg, "no such file") {
			cls = "startup fails (remove of a rejected file: no such file)"
		}
		rep.Violate(keyBase+" "+cls+" "+p.name, fmt.Sprintf("%s: disk.New returned: %v", id, err), replay)
		return
	}
	defer VfShutdown(cc)
	VfDrain(cc)
	want := vf9Simulate(p, max)
	wantSet := map[int]bool{}
	for _, i := range want {
		wantSet[i] = true
	}
	st := VfSnapshot(cc)
	have := map[string]VfEntry{}
	for _, e := range st.Entries {
		have[e.Key] = e
	}
	// duplicates: the newest file of a key wins
	newest := map[string]int{}
	for i, e := range p.entries {
		newest[e.key] = i
	}
	ok := true
	for i, e := range p.entries {
		if newest[e.key] != i {
			// superseded duplicate: its file must be gone
			if _, err := os.Stat(filepath.Join(dir, vf9FinalRel(e))); err == nil {
				rep.Violate(keyBase+" superseded duplicate file survives "+p.name, fmt.Sprintf("%s: older file of duplicated key %s still on disk", id, e), replay)
				ok = false
			}
			continue
		}
		_, present := have[e.key]
		if wantSet[i] && !present {
			rep.Violate(keyBase+" entry that fits was dropped "+p.name, fmt.Sprintf("%s: %s (atime rank %d) fits but is not indexed; index has %d entries", id, e, i, len(st.Entries)), replay)
			ok = false
		}
		if !wantSet[i] && present {
			rep.Violate(keyBase+" older entry survives while a newer one was evicted "+p.name, fmt.Sprintf("%s: %s (atime rank %d) should have been evicted (survivors by oldest-first eviction: %v)", id, e, i, want), replay)
			ok = false
		}
		if present && wantSet[i] {
			for _, known := range []bool{true, false} {
				got, sz, err := vf9Read(cc, e, known)
				if err != nil || got == nil || !bytes.Equal(got, e.content) || sz != int64(len(e.content)) {
					rep.Violate(keyBase+" surviving entry not readable unchanged "+p.name, fmt.Sprintf("%s: %s read (size known=%v): err=%v, %d bytes (want %d), reported size %d", id, e, known, err, len(got), len(e.content), sz), replay)
					ok = false
					break
				}
			}
		}
	}
	VfDrain(cc)
	st = VfSnapshot(cc)
	for _, pr := range VfAccounting(st, 0) {
		rep.Violate(keyBase+" accounting after start "+vfGeneric(pr), fmt.Sprintf("%s: %s", id, pr), replay)
		ok = false
	}
	for _, pr := range VfDirectory(cc, st) {
		if strings.Contains(strings.ToLower(pr), ".ds_store") {
			continue // placed by the harness, tolerated by the cache
		}
		rep.Violate(keyBase+" directory after start "+vfGeneric(pr), fmt.Sprintf("%s: %s", id, pr), replay)
		ok = false
	}
	for _, legacy := range []string{"cas", "ac", "raw"} {
		if _, err := os.Stat(filepath.Join(dir, legacy)); err == nil {
			rep.Violate(keyBase+" legacy directory left behind", fmt.Sprintf("%s: %s/ still exists after migration", id, legacy), replay)
			ok = false
		}
	}
	if !ok {
		return
	}
	// later evictions must take the survivors oldest first. The reads above
	// touched the survivors in ascending atime order, which preserves it.
	remaining := append([]int(nil), want...)
	for n := 0; len(remaining) > 0 && n < 64; n++ {
		fk := vlib.Sha([]byte(fmt.Sprintf("filler-%d-%d", vf9Ctr, n)))
		body := vlib.Bytes("filler", 4096, false)
		if max < 4096 {
			break
		}
		if err := cc.Put(context.Background(), cache.RAW, fk, int64(len(body)), bytes.NewReader(body)); err != nil {
			rep.Violate(keyBase+" upload after start fails", fmt.Sprintf("%s: filler upload: %v", id, err), replay)
			return
		}
		st := VfSnapshot(cc)
		now := map[string]bool{}
		for _, e := range st.Entries {
			now[e.Key] = true
		}
		var still []int
		gap := false
		for _, i := range remaining {
			if now[p.entries[i].key] {
				still = append(still, i)
				gap = true
				_ = gap
			}
		}
		// evicted ones must be a prefix of remaining
		for j, i := range remaining {
			gone := !now[p.entries[i].key]
			if !gone {
				// everything after must also be present
				for _, k := range remaining[j:] {
					if !now[p.entries[k].key] {
						rep.Violate(keyBase+" later eviction not in atime order "+p.name, fmt.Sprintf("%s: after %d filler uploads %s (rank %d) was evicted while older %s (rank %d) survives", id, n+1, p.entries[k], k, p.entries[i], i), replay)
						return
					}
				}
				break
			}
		}
		remaining = still
	}
	VfDrain(cc)
	rep.Nontrivial(strings.Join(kinds, "+") + "|" + maxName + "|" + mode + "|" + fmt.Sprint(len(want)))
	rep.Outcome(fmt.Sprintf("survivors=%d/%d max=%s", len(want), len(p.entries), maxName))
}

// vf9FinalRel: where the file of e lives after migration.
func vf9Perms(n int, fn func([]int)) {
	a := make([]int, n)
	for i := range a {
		a[i] = i
	}
	var rec func(k int)
	rec = func(k int) {
		if k == n {
			fn(append([]int(nil), a...))
			return
		}
		for i := k; i < n; i++ {
			a[k], a[i] = a[i], a[k]
			rec(k + 1)
			a[k], a[i] = a[i], a[k]
		}
	}
	rec(0)
}

func vf9FinalRel(e vf9Entry) string {
	ks := e.kind.kind.String()
	switch e.kind.layout {
	case "flat":
		if e.kind.kind == cache.CAS {
			return fmt.Sprintf("%s.v2/%s/%s-222444666.v1", ks, e.hash[:2], e.hash)
		}
		return fmt.Sprintf("%s.v2/%s/%s-222444666", ks, e.hash[:2], e.hash)
	case "twolevel":
		if e.kind.kind == cache.CAS {
			return fmt.Sprintf("%s.v2/%s/%s-556677.v1", ks, e.hash[:2], e.hash)
		}
		return fmt.Sprintf("%s.v2/%s/%s-112233", ks, e.hash[:2], e.hash)
	}
	return e.rel
}

func vf9MaxSizes(p *vf9Pop) map[string]int64 {
	var total, largest int64
	for i := range p.entries {
		e := p.entries[i]
		e.place()
		r := vfRound(e.onDisk)
		total += r
		if r > largest {
			largest = r
		}
	}
	out := map[string]int64{"total+1blk": total + 4096, "total": total}
	if total-4096 >= 4096 {
		out["total-1blk"] = total - 4096
	}
	if largest-4096 >= 4096 {
		out["largest-1blk"] = largest - 4096
	}
	out["1blk"] = 4096
	return out
}

func TestVfC09(t *testing.T) {
	log.SetOutput(io.Discard)
	vsched.SetFastSkeleton("", nil)
	rep := vlib.NewReport("C09", "E4:populations")
	defer rep.Write()
	dir := filepath.Join(os.Getenv("VERIF_SCRATCH"), "c09")
	shard, nshards := vlib.Shard()
	deadline := vlib.Deadline()
	var pops []*vf9Pop
	sizesFor := map[int][][]string{
		1: {{"1B"}, {"1blk"}, {"3blk"}, {"3blkZ"}},
		2: {{"1blk", "1blk"}, {"1B", "3blk"}, {"3blk", "1blk"}, {"3blkZ", "1blk"}, {"1blk", "3blkZ"}},
		3: {{"1blk", "1blk", "1blk"}, {"3blk", "1B", "1blk"}, {"1blk", "3blk", "1blk"}, {"1blk", "1B", "3blk"}},
	}
	kinds3 := []int{0, 1, 2, 4, 7} // representative kinds for triples (quick)
	if vlib.Thorough() {
		kinds3 = []int{0, 1, 2, 3, 4, 5, 6, 7, 8, 9}
	}
	for a := range vf9Kinds {
		for _, sp := range sizesFor[1] {
			pops = append(pops, &vf9Pop{name: "single", entries: []vf9Entry{vf9Make(vf9Kinds[a], sp[0], "")}})
		}
		for b := range vf9Kinds {
			for _, sp := range sizesFor[2] {
				pops = append(pops, &vf9Pop{name: "pair", entries: []vf9Entry{vf9Make(vf9Kinds[a], sp[0], ""), vf9Make(vf9Kinds[b], sp[1], "")}})
			}
		}
	}
	for _, a := range kinds3 {
		for _, b := range kinds3 {
			for _, c := range kinds3 {
				for _, sp := range sizesFor[3] {
					pops = append(pops, &vf9Pop{name: "triple", entries: []vf9Entry{vf9Make(vf9Kinds[a], sp[0], ""), vf9Make(vf9Kinds[b], sp[1], ""), vf9Make(vf9Kinds[c], sp[2], "")}})
				}
			}
		}
	}
	// extras: lost+found / .DS_Store at every level, with one entry of each v2 kind
	for _, extra := range [][]string{{"lost+found"}, {"cas.v2/lost+found"}, {"ac.v2/lost+found", "raw.v2/lost+found"}, {"cas.v2/ab/lost+found"}, {".DS_Store"}, {"cas.v2/.DS_Store"}, {".ds_store", "lost+found", "ac.v2/cd/lost+found"}} {
		pops = append(pops, &vf9Pop{name: "extras", extras: extra, entries: []vf9Entry{vf9Make(vf9Kinds[0], "1blk", ""), vf9Make(vf9Kinds[2], "1blk", "")}})
	}
	// duplicates: two files for one key
	{
		a := vf9Make(vf9Kinds[2], "1blk", "111")
		b := a
		b.suffix = "222"
		b.content = vlib.Bytes("dup-newer", 4096, false)
		pops = append(pops, &vf9Pop{name: "duplicate-ac", entries: []vf9Entry{a, b}})
		c := vf9Make(vf9Kinds[1], "1blk", "333") // .v1 raw
		d := c
		d.kind = vf9Kinds[0] // same content, compressed
		d.suffix = "444"
		pops = append(pops, &vf9Pop{name: "duplicate-cas-v1-then-zstd", entries: []vf9Entry{c, d}})
		pops = append(pops, &vf9Pop{name: "duplicate-cas-zstd-then-v1", entries: []vf9Entry{d, c}})
		f := vf9Make(vf9Kinds[4], "1blk", "") // flat legacy + v2 of the same hash
		g := f
		g.kind = vf9Kinds[0]
		g.suffix = "555"
		pops = append(pops, &vf9Pop{name: "duplicate-legacy-and-v2", entries: []vf9Entry{f, g}})
	}
	// access times that differ only below a second / millisecond / microsecond
	// (the file system records nanoseconds): four same-kind entries in every
	// one of the 24 orders relative to their names, so that directory order and
	// access-time order disagree
	for _, step := range []time.Duration{time.Nanosecond, time.Microsecond, 300 * time.Microsecond, 7 * time.Millisecond} {
		for _, kd := range []int{2, 4} {
			var four []vf9Entry
			for i := 0; i < 4; i++ {
				four = append(four, vf9Make(vf9Kinds[kd], "1blk", ""))
			}
			sort.Slice(four, func(i, j int) bool { return four[i].hash < four[j].hash })
			vf9Perms(4, func(pm []int) {
				pp := &vf9Pop{name: "fine-atime", step: step}
				for _, x := range pm {
					pp.entries = append(pp.entries, four[x])
				}
				pops = append(pops, pp)
			})
		}
	}
	rep.Extra["populations"] = len(pops)
	n := 0
	for pi, p := range pops {
		if pi%nshards != shard {
			continue
		}
		if time.Now().After(deadline) {
			rep.Cap("time budget after " + strconv.Itoa(n) + " populations")
			break
		}
		n++
		maxes := vf9MaxSizes(p)
		var mn []string
		for k := range maxes {
			mn = append(mn, k)
		}
		sort.Strings(mn)
		for _, mk := range mn {
			if strings.HasPrefix(p.name, "duplicate") && mk != "total+1blk" {
				continue
			}
			for _, mode := range []string{"zstd", "uncompressed"} {
				vf9RunOne(rep, dir, p, maxes[mk], mk, mode)
			}
		}
		if n == 3 || n == 40 {
			var names []string
			for _, e := range p.entries {
				names = append(names, e.String()+" @ "+e.rel)
			}
			rep.Sample(map[string]interface{}{"population": names, "max_sizes": maxes})
		}
	}
	_ = os.RemoveAll(dir)
}
