package disk

import (
	"fmt"
	"github.com/buchgr/bazel-remote/v2/verifdrv/vlib"
	"os"
	"path/filepath"
	"testing"
	"time"
)

func TestVfBench(t *testing.T) {
	dir := filepath.Join(os.Getenv("VERIF_SCRATCH"), "cache")
	tm := func(name string, n int, f func()) {
		t0 := time.Now()
		for i := 0; i < n; i++ {
			f()
		}
		fmt.Printf("%s: %.2f ms\n", name, float64(time.Since(t0).Microseconds())/1000/float64(n))
	}
	var cc Cache
	tm("New(first)", 1, func() { cc, _ = New(dir, 16384, WithAccessLogger(vlib.SilentLogger())) })
	tm("shutdown", 1, func() { VfShutdown(cc) })
	tm("New(again)", 20, func() { cc, _ = New(dir, 16384, WithAccessLogger(vlib.SilentLogger())); VfShutdown(cc) })
	tm("clean", 20, func() { vfCleanDir(dir) })
	tm("list", 20, func() { VfListFiles(dir) })
	cc, _ = New(dir, 16384, WithAccessLogger(vlib.SilentLogger()))
	tm("drain", 20, func() { VfDrain(cc) })
	tm("snapshot", 20, func() { VfSnapshot(cc) })
}
