package disk

// E2 (cache level): explicit-state breadth-first search over operation
// sequences on a real disk cache (fresh instance per transition, shortest
// path replayed), with a boring reference model. Oracles on every transition:
//   C03 accounting equation, reserved == 0, Stats() == index
//   C04 directory == index after the remover drained
//   C05 victims form a least-recently-used tail, not more than needed, none
//       when the item fits; accepted upload present; oversize rejected
//   C15 the three key spaces are independent; zstd reads only from the CAS
// (C12 fault cells are mixed in when a backend is configured.)

import (
	"bytes"
	"context"
	"errors"
	"fmt"
	"io"
	"log"
	"os"
	"path/filepath"
	"sort"
	"strconv"
	"strings"
	"testing"
	"time"

	"github.com/buchgr/bazel-remote/v2/cache"
	pb "github.com/buchgr/bazel-remote/v2/genproto/build/bazel/remote/execution/v2"
	"github.com/buchgr/bazel-remote/v2/utils/verifhook/vsched"
	"github.com/buchgr/bazel-remote/v2/verifdrv/vlib"
)

type vfCKey struct {
	kind cache.EntryKind
	hash string
}

func (k vfCKey) String() string { return cache.LookupKey(k.kind, k.hash) }

type vfCOp struct {
	name  string
	what  string // put get getzstd contains findmissing
	key   vfCKey
	data  []byte // value to upload (put)
	size  int64  // declared size (put) / requested size (get)
	bad   string // "", "hash", "short", "readerr", "extra", "toolarge"
	keys  []vfCKey
	sizes []int64
	// backend behaviour for this op
	fault *vlib.GetFault
}

type vfCModel struct {
	content map[string][]byte // present entries
	order   []string          // LRU -> MRU
	backend map[string][]byte // logical content held by the backend
}

func (m *vfCModel) touch(k string) {
	for i, x := range m.order {
		if x == k {
			m.order = append(m.order[:i:i], m.order[i+1:]...)
			break
		}
	}
	m.order = append(m.order, k)
}

func (m *vfCModel) drop(k string) {
	delete(m.content, k)
	for i, x := range m.order {
		if x == k {
			m.order = append(m.order[:i:i], m.order[i+1:]...)
			break
		}
	}
}

type vfCSys struct {
	cc    Cache
	c     *diskCache
	dir   string
	mode  string
	max   int64
	proxy *vlib.FakeProxy
	m     *vfCModel
}

type vfErrReader struct {
	r   io.Reader
	n   int
	err error
}

func (e *vfErrReader) Read(p []byte) (int, error) {
	if e.n <= 0 {
		return 0, e.err
	}
	if len(p) > e.n {
		p = p[:e.n]
	}
	n, err := e.r.Read(p)
	e.n -= n
	return n, err
}

var errVfReader = errors.New("injected reader failure")

// vfPreloadBackend: when set (PROXY=2), every fresh system starts with a
// backend that already holds these entries (a non-initial state: blobs that
// exist only in the backend, e.g. uploaded through another cache instance).
var vfPreloadBackend []*vfCOp

// vfMaxProxy: when > 0 (PROXY=3) the cache is configured with this
// max_proxy_blob_size: backend objects larger than it are neither asked for,
// nor served, nor cached, and a lookup of a larger known size reserves nothing.
var vfMaxProxy int64

func vfNewCSys(dir, mode string, max int64, withProxy bool) *vfCSys {
	vfCleanHot(dir)
	s := &vfCSys{dir: dir, mode: mode, max: max, m: &vfCModel{content: map[string][]byte{}, backend: map[string][]byte{}}}
	opts := []Option{WithStorageMode(mode), WithAccessLogger(vlib.SilentLogger())}
	if withProxy {
		s.proxy = vlib.NewFakeProxy()
		opts = append(opts, WithProxyBackend(s.proxy))
		if vfMaxProxy > 0 {
			opts = append(opts, WithProxyMaxBlobSize(vfMaxProxy))
		}
	}
	cc, err := New(dir, max, opts...)
	if err != nil {
		panic(err)
	}
	s.cc, s.c = cc, vfUnwrap(cc)
	if withProxy {
		for _, o := range vfPreloadBackend {
			s.proxy.Set(o.key.kind, o.key.hash, s.storedForm(o.key, o.data), int64(len(o.data)))
			s.m.backend[o.key.String()] = o.data
		}
	}
	return s
}

func (s *vfCSys) close() {
	VfDrain(s.cc)
	VfShutdown(s.cc)
}

// storedForm returns the bytes a backend would hold for a value.
func (s *vfCSys) storedForm(k vfCKey, data []byte) []byte {
	if k.kind == cache.CAS && s.mode == "zstd" {
		return vlib.EncodeCasBlob(data, 1<<20, true)
	}
	return data
}

type vfCRes struct {
	class   string // ok, errNNN, miss, hit, true, false
	content []byte
	size    int64
	missing []string
}

func (s *vfCSys) run(o *vfCOp) vfCRes {
	ctx := context.Background()
	switch o.what {
	case "put":
		var r io.Reader = bytes.NewReader(o.data)
		switch o.bad {
		case "short":
			r = bytes.NewReader(o.data[:len(o.data)/2])
		case "readerr":
			r = &vfErrReader{r: bytes.NewReader(o.data), n: len(o.data) / 2, err: errVfReader}
		case "extra":
			r = io.MultiReader(bytes.NewReader(o.data), bytes.NewReader([]byte("x")))
		}
		if o.bad == "createfail" {
			// environment deviation: the file for this upload cannot be created
			h := o.key.hash
			vsched.SetOpenFault(func(name string, flag int) error {
				if flag&os.O_CREATE != 0 && strings.Contains(name, h) {
					return &os.PathError{Op: "open", Path: name, Err: errors.New("too many open files (injected)")}
				}
				return nil
			})
		}
		err := s.cc.Put(ctx, o.key.kind, o.key.hash, o.size, r)
		if o.bad == "createfail" {
			vsched.SetOpenFault(nil)
		}
		return vfCRes{class: vfErrCode(err)}
	case "get", "getzstd":
		if s.proxy != nil && o.fault != nil {
			f := *o.fault
			s.proxy.GetFault[o.key.String()] = &f
		}
		var rc io.ReadCloser
		var sz int64
		var err error
		if o.what == "getzstd" {
			rc, sz, err = s.cc.GetZstd(ctx, o.key.hash, o.size, 0)
		} else {
			rc, sz, err = s.cc.Get(ctx, o.key.kind, o.key.hash, o.size, 0)
		}
		if s.proxy != nil {
			delete(s.proxy.GetFault, o.key.String())
		}
		if err != nil {
			if rc != nil {
				_ = rc.Close()
			}
			return vfCRes{class: vfErrCode(err)}
		}
		if rc == nil {
			return vfCRes{class: "miss"}
		}
		data, rerr := io.ReadAll(rc)
		_ = rc.Close()
		if rerr == nil && o.what == "getzstd" {
			data, rerr = vlib.ZstdDecodeAll(data)
		}
		if rerr != nil {
			return vfCRes{class: "readerr", content: data, size: sz}
		}
		return vfCRes{class: "hit", content: data, size: sz}
	case "contains":
		ok, sz := s.cc.Contains(ctx, o.key.kind, o.key.hash, o.size)
		return vfCRes{class: strconv.FormatBool(ok), size: sz}
	case "findmissing":
		ds := make([]*pb.Digest, len(o.keys))
		for i, k := range o.keys {
			ds[i] = &pb.Digest{Hash: k.hash, SizeBytes: o.sizes[i]}
		}
		miss, err := s.cc.FindMissingCasBlobs(ctx, ds)
		if err != nil {
			return vfCRes{class: vfErrCode(err)}
		}
		r := vfCRes{class: "ok"}
		for _, d := range miss {
			r.missing = append(r.missing, d.Hash)
		}
		return r
	}
	panic("bad op " + o.what)
}

// step runs op on the real cache, checks the oracles (if check) and updates
// the model. It returns the list of problems, each prefixed with the
// property it belongs to.
func (s *vfCSys) step(o *vfCOp, check bool) []string {
	var bad []string
	pre := VfSnapshot(s.cc)
	preKeys := map[string]VfEntry{}
	for _, e := range pre.Entries {
		preKeys[e.Key] = e
	}
	var putsBefore int
	if s.proxy != nil {
		putsBefore = len(s.proxy.PutsCopy())
	}
	res := s.run(o)
	if !VfDrain(s.cc) {
		bad = append(bad, "C04 deletion backlog did not drain")
	}
	post := VfSnapshot(s.cc)
	postKeys := map[string]VfEntry{}
	for _, e := range post.Entries {
		postKeys[e.Key] = e
	}
	m := s.m
	k := o.key.String()

	// ---------- model transition + functional oracle ----------
	var victimsAllowed bool // may this op evict at all?
	var incomingLogical, incomingDisk int64
	replaced := ""
	admitted := false
	fetchFrom := func() ([]byte, bool) { // backend read-through
		if s.proxy == nil {
			return nil, false
		}
		v, ok := m.backend[k]
		if ok && vfMaxProxy > 0 && int64(len(v)) > vfMaxProxy {
			return nil, false // larger than max_proxy_blob_size: as good as absent
		}
		return v, ok
	}
	switch o.what {
	case "put":
		wellFormed := o.bad == ""
		if wellFormed {
			if res.class != "ok" {
				bad = append(bad, fmt.Sprintf("C05 well-formed upload %s (%d bytes, max_size %d) refused: %s", o.name, len(o.data), s.max, res.class))
			} else {
				admitted = true
				m.content[k] = o.data
				m.touch(k)
				if s.proxy != nil {
					m.backend[k] = o.data
				}
			}
			victimsAllowed = true
			incomingLogical = int64(len(o.data))
			replaced = k
		} else {
			if res.class == "ok" {
				bad = append(bad, fmt.Sprintf("C04 malformed upload %s acknowledged", o.name))
			}
			if o.bad == "toolarge" {
				victimsAllowed = false
				if res.class != "err400" {
					bad = append(bad, "C05 item larger than max_size answered "+res.class)
				}
			} else {
				victimsAllowed = true // the reservation may evict
				incomingLogical = o.size
				replaced = k
			}
		}
	case "get", "getzstd":
		want, present := m.content[k]
		sizeOK := o.size < 0 || (present && o.size == int64(len(want)))
		if o.what == "getzstd" && o.key.kind != cache.CAS {
			if res.class != "err400" {
				bad = append(bad, "C15 compressed read outside the CAS answered "+res.class)
			}
			break
		}
		if present && sizeOK {
			if res.class != "hit" {
				bad = append(bad, fmt.Sprintf("C05 lookup %s of a present entry answered %s", o.name, res.class))
			} else {
				if !bytes.Equal(res.content, want) {
					bad = append(bad, fmt.Sprintf("C15 %s returned %d bytes that are not the value stored under that key in that key space", o.name, len(res.content)))
				}
				if res.size != int64(len(want)) {
					bad = append(bad, fmt.Sprintf("C15 %s reported size %d for a %d byte value", o.name, res.size, len(want)))
				}
				m.touch(k)
			}
			break
		}
		if present && !sizeOK {
			// size-mismatching lookup: a miss; whether it refreshes recency
			// is not specified -> ops like this are not in the alphabet.
			if res.class == "hit" {
				bad = append(bad, "C15 lookup with another size hit")
			}
			break
		}
		// locally absent
		bv, inBackend := fetchFrom()
		if s.proxy != nil && o.size > 0 && (vfMaxProxy == 0 || o.size <= vfMaxProxy) {
			// a fetch of known size reserves its space (and may evict
			// for it) before the backend is asked.
			victimsAllowed = true
			incomingLogical = o.size
		}
		if inBackend && (o.size < 0 || o.size == int64(len(bv))) {
			victimsAllowed = true
			incomingLogical = int64(len(bv))
			if o.fault == nil {
				if res.class != "hit" {
					bad = append(bad, fmt.Sprintf("C12 local miss of %s held by the backend answered %s", o.name, res.class))
				} else {
					if !bytes.Equal(res.content, bv) || res.size != int64(len(bv)) {
						bad = append(bad, fmt.Sprintf("C12 read-through of %s returned other content or size", o.name))
					}
					admitted = true
					m.content[k] = bv
					m.touch(k)
				}
			} else {
				switch res.class {
				case "miss", "err500", "readerr":
				case "hit":
					if !bytes.Equal(res.content, bv) || res.size != int64(len(bv)) {
						bad = append(bad, fmt.Sprintf("C12 faulty backend stream for %s produced a hit with wrong content (%d of %d bytes)", o.name, len(res.content), len(bv)))
					}
				default:
					bad = append(bad, "C12 backend fault surfaced as "+res.class)
				}
				if _, cached := postKeys[k]; cached {
					bad = append(bad, fmt.Sprintf("C12 entry cached locally from a faulty backend stream (%s)", o.name))
				}
			}
		} else if o.fault != nil && s.proxy != nil {
			if res.class != "miss" && res.class != "err500" {
				bad = append(bad, fmt.Sprintf("C12 backend fault on %s surfaced as %s", o.name, res.class))
			}
		} else if res.class != "miss" {
			bad = append(bad, fmt.Sprintf("C15 lookup %s of an absent entry answered %s", o.name, res.class))
		}
	case "contains":
		want, present := m.content[k]
		sizeOK := present && (o.size < 0 || o.size == int64(len(want)))
		_, inBackend := fetchFrom()
		if sizeOK {
			if res.class != "true" {
				bad = append(bad, "C05 existence check of a present entry said absent")
			}
			m.touch(k)
		} else if !present && !inBackend && res.class != "false" {
			bad = append(bad, "C15 existence check of an absent entry said present")
		}
	case "findmissing":
		var want []string
		for i, kk := range o.keys {
			v, present := m.content[kk.String()]
			bv, inBackend := m.backend[kk.String()]
			if inBackend && vfMaxProxy > 0 && int64(len(bv)) > vfMaxProxy {
				inBackend = false
			}
			if present && int64(len(v)) == o.sizes[i] {
				m.touch(kk.String())
				continue
			}
			if s.proxy != nil && inBackend {
				continue
			}
			want = append(want, kk.hash)
		}
		if res.class != "ok" || strings.Join(res.missing, ",") != strings.Join(want, ",") {
			bad = append(bad, fmt.Sprintf("C10 FindMissing answered %s %v, expected %v", res.class, vfShort(res.missing), vfShort(want)))
		}
	}

	// ---------- victims (C05) ----------
	var victims []string
	for _, key := range VfRecency(pre) { // LRU -> MRU
		if _, still := postKeys[key]; !still {
			victims = append(victims, key)
		}
	}
	if check {
		if !victimsAllowed && len(victims) > 0 {
			bad = append(bad, fmt.Sprintf("C05 %s evicted %v although nothing had to be admitted", o.name, vfShort(victims)))
		}
		if victimsAllowed && len(victims) > 0 {
			// candidate order: model recency without the key itself - but only when the upload
			// was admitted: the version a FAILED overwrite would have replaced stays ("which
			// stays on disk until the new one is complete") and is an entry like any other
			superseded := replaced
			if !admitted {
				superseded = ""
			}
			var cand []string
			for _, x := range VfRecency(pre) {
				if x != superseded {
					cand = append(cand, x)
				}
			}
			realVictims := victims
			if _, had := preKeys[superseded]; had && superseded != "" {
				// the replaced version disappearing is not an eviction if
				// the key is present again
				var vv []string
				for _, x := range victims {
					if x != superseded {
						vv = append(vv, x)
					}
				}
				realVictims = vv
			}
			if e, ok := postKeys[k]; ok && admitted {
				incomingDisk = vfRound(e.SizeOnDisk)
			}
			need := incomingLogical
			if incomingDisk > need {
				need = incomingDisk
			}
			// minimal tail n with accounted_pre - freed + need <= max
			n := 0
			var freed int64
			for pre.CurrentSize-freed+need > s.max && n < len(cand) {
				freed += vfRound(preKeys[cand[n]].SizeOnDisk)
				n++
			}
			if len(realVictims) > n {
				bad = append(bad, fmt.Sprintf("C05 %s evicted %d entries %v, but %d suffice to fit %d bytes next to %d accounted (max %d)", o.name, len(realVictims), vfShort(realVictims), n, need, pre.CurrentSize, s.max))
			}
			if len(realVictims) <= len(cand) && strings.Join(realVictims, ",") != strings.Join(cand[:len(realVictims)], ",") {
				bad = append(bad, fmt.Sprintf("C05 %s evicted %v while less recently used entries survive (LRU->MRU: %v)", o.name, vfShort(realVictims), vfShort(cand)))
			}
		}
		// model recency must equal the real recency (every kind of hit is a use)
		if len(bad) == 0 {
			for _, v := range victims {
				if _, back := postKeys[v]; !back {
					m.drop(v)
				}
			}
			if strings.Join(m.order, ",") != strings.Join(VfRecency(post), ",") {
				bad = append(bad, fmt.Sprintf("C05 recency order after %s is %v, expected %v (a use is a write or any lookup that hit)", o.name, vfShort(VfRecency(post)), vfShort(m.order)))
			}
		}
	}
	// keep the model's presence in line with reality for the next steps
	for _, v := range victims {
		if _, back := postKeys[v]; !back {
			m.drop(v)
		}
	}
	if admitted {
		if _, ok := postKeys[k]; !ok {
			if check {
				bad = append(bad, fmt.Sprintf("C05 %s was acknowledged but the entry is not present afterwards", o.name))
			}
			m.drop(k)
		}
	}
	m.order = VfRecency(post)

	if check {
		// ---------- C03 ----------
		for _, p := range VfAccounting(post, 0) {
			bad = append(bad, "C03 "+p)
		}
		ts, rs, n, us := s.cc.Stats()
		if ts != post.CurrentSize || rs != post.Reserved || n != len(post.Entries) || us != post.Uncompressed {
			bad = append(bad, fmt.Sprintf("C03 Stats() = (%d,%d,%d,%d) but the index says (%d,%d,%d,%d)", ts, rs, n, us, post.CurrentSize, post.Reserved, len(post.Entries), post.Uncompressed))
		}
		// ---------- C04 ----------
		for _, p := range VfDirectory(s.cc, post) {
			bad = append(bad, "C04 "+p)
		}
		for key := range postKeys {
			if _, ok := m.content[key]; !ok {
				bad = append(bad, "C04 index holds "+key[:8]+" which no acknowledged upload or fetch put there")
			}
		}
		// ---------- C12 write-through ----------
		if s.proxy != nil && o.what == "put" {
			got := s.proxy.PutsCopy()[putsBefore:]
			if admitted {
				if len(got) != 1 {
					bad = append(bad, fmt.Sprintf("C12 accepted upload handed to the backend %d times", len(got)))
				} else {
					back, err := vlib.DecodeStored(got[0].Data, o.key.kind == cache.CAS && s.mode == "zstd")
					if err != nil || !bytes.Equal(back, o.data) || got[0].LogicalSize != int64(len(o.data)) || !got[0].Closed {
						bad = append(bad, fmt.Sprintf("C12 object handed to the backend does not decode to the uploaded blob (err=%v closed=%v)", err, got[0].Closed))
					}
				}
			} else if len(got) != 0 {
				bad = append(bad, "C12 rejected upload was handed to the backend")
			}
		}
	}
	return bad
}

func vfShort(keys []string) []string {
	out := make([]string, len(keys))
	for i, k := range keys {
		if len(k) > 10 {
			out[i] = k[:10]
		} else {
			out[i] = k
		}
	}
	return out
}

func (s *vfCSys) stateKey() string {
	st := VfSnapshot(s.cc)
	var b strings.Builder
	for _, e := range st.Entries {
		fmt.Fprintf(&b, "%s:%d:%d,", e.Key[:8], e.Size, e.SizeOnDisk)
	}
	fmt.Fprintf(&b, "|%d|%d|%d|", st.CurrentSize, st.Reserved, st.Uncompressed)
	files := VfListHot(s.dir)
	var fs []string
	for p, sz := range files {
		fs = append(fs, fmt.Sprintf("%s:%d", vfStrip(p), sz))
	}
	sort.Strings(fs)
	b.WriteString(strings.Join(fs, ","))
	if s.proxy != nil {
		var ks []string
		for k := range s.m.backend {
			ks = append(ks, k[:8])
		}
		sort.Strings(ks)
		b.WriteString("|B:" + strings.Join(ks, ","))
	}
	return b.String()
}

func vfCAlphabet(mode string, max int64, withProxy bool) []*vfCOp {
	mk := func(tag string, n int, comp bool) (vfCKey, []byte) {
		d := vlib.Bytes(tag, n, comp)
		return vfCKey{cache.CAS, vlib.Sha(d)}, d
	}
	ka, da := mk("e2-a", 3000, true)
	kb, db := mk("e2-b", 6000, false)
	z := vlib.Zeros(8192)
	kz := vfCKey{cache.CAS, vlib.Sha(z)}
	kbig, dbig := mk("e2-big", int(max)+1, false)
	// all three key spaces collide on ONE hash: the AC/RAW key is the CAS
	// digest of blob a
	ach := ka.hash
	kac := vfCKey{cache.AC, ach}
	kraw := vfCKey{cache.RAW, ach}
	v1 := vlib.Bytes("e2-v1", 100, false)
	v2 := vlib.Bytes("e2-v2", 5000, false)
	w1 := vlib.Bytes("e2-w1", 200, false)
	put := func(name string, k vfCKey, d []byte, bad string) *vfCOp {
		return &vfCOp{name: name, what: "put", key: k, data: d, size: int64(len(d)), bad: bad}
	}
	ops := []*vfCOp{
		put("put(cas,a)", ka, da, ""),
		put("put(cas,b)", kb, db, ""),
		put("put(cas,z)", kz, z, ""),
		put("put(cas,a,wrong-hash)", ka, vlib.Bytes("e2-other", 3000, true), "hash"),
		put("put(cas,b,short)", kb, db, "short"),
		put("put(cas,b,reader-error)", kb, db, "readerr"),
		put("put(cas,a,extra-byte)", ka, da, "extra"),
		put("put(cas,big)", kbig, dbig, "toolarge"),
		put("put(ac,k,v1)", kac, v1, ""),
		put("put(ac,k,v2)", kac, v2, ""),
		put("put(raw,k,w1)", kraw, w1, ""),
		put("put(raw,k,empty)", kraw, []byte{}, ""), // a zero-length value is a legitimate entry outside the CAS
		put("put(ac,k,v2,short)", kac, v2, "short"),
		put("put(raw,k,w1,reader-error)", kraw, w1, "readerr"),
		put("put(cas,b,file-creation-fails)", kb, db, "createfail"),
		put("put(ac,k,v2,file-creation-fails)", kac, v2, "createfail"),
		{name: "get(cas,a,size)", what: "get", key: ka, size: int64(len(da))},
		{name: "get(cas,b,-1)", what: "get", key: kb, size: -1},
		{name: "getzstd(cas,z,size)", what: "getzstd", key: kz, size: int64(len(z))},
		{name: "contains(cas,b,size)", what: "contains", key: kb, size: int64(len(db))},
		{name: "findmissing(a,b,z)", what: "findmissing", keys: []vfCKey{ka, kb, kz}, sizes: []int64{int64(len(da)), int64(len(db)), int64(len(z))}},
		{name: "get(ac,k)", what: "get", key: kac, size: -1},
		{name: "get(raw,k)", what: "get", key: kraw, size: -1},
		{name: "contains(ac,k)", what: "contains", key: kac, size: -1},
		{name: "getzstd(cas,a,-1)", what: "getzstd", key: ka, size: -1},
	}
	if withProxy {
		ops = append(ops,
			&vfCOp{name: "get(cas,a,size,backend-stream-error)", what: "get", key: ka, size: int64(len(da)), fault: &vlib.GetFault{CutAt: 50, CutErr: vlib.ErrBackend}},
			&vfCOp{name: "get(cas,b,-1,backend-short-eof)", what: "get", key: kb, size: -1, fault: &vlib.GetFault{CutAt: 100}},
			&vfCOp{name: "get(ac,k,backend-error)", what: "get", key: kac, size: -1, fault: &vlib.GetFault{Err: vlib.ErrBackend, CutAt: -1}},
		)
	}
	return ops
}

func TestVfE2Cache(t *testing.T) {
	log.SetOutput(io.Discard)
	prop := vlib.Param("PROPERTY", "C03")
	mode := vlib.Param("MODE", "zstd")
	withProxy := vlib.Param("PROXY", "0") != "0"
	preload := vlib.Param("PROXY", "0") == "2" || vlib.Param("PROXY", "0") == "3"
	vfMaxProxy = 0
	if vlib.Param("PROXY", "0") == "3" {
		vfMaxProxy = 4000 // between blob a (3000) and blob b (6000), z (8192), action result v2 (5000)
	}
	depth, _ := strconv.Atoi(vlib.Param("DEPTH", "3"))
	maxBlocks, _ := strconv.Atoi(vlib.Param("MAXBLOCKS", "4"))
	max := int64(maxBlocks) * BlockSize
	rep := vlib.NewReport(prop, fmt.Sprintf("E2-cache:%s/max%d/proxy%v%s", mode, maxBlocks, withProxy, map[bool]string{true: "+preloaded", false: ""}[preload]+map[bool]string{true: "+max_proxy_blob_size=4000", false: ""}[vfMaxProxy > 0]))
	defer rep.Write()
	dir := filepath.Join(os.Getenv("VERIF_SCRATCH"), "cache")
	alphabet := vfCAlphabet(mode, max, withProxy)
	vfPreloadBackend = nil
	if preload {
		// the backend already holds the CAS blobs a and b and the action-cache value v1
		for _, o := range alphabet {
			if o.name == "put(cas,a)" || o.name == "put(cas,b)" || o.name == "put(ac,k,v1)" {
				vfPreloadBackend = append(vfPreloadBackend, o)
			}
		}
	}
	var hot []string
	for _, o := range alphabet {
		if o.key.hash != "" {
			hot = append(hot, o.key.hash)
		}
	}
	VfSetHot(hot...)
	vfCleanDir(dir)
	vfPrimeSkeleton(dir)
	shard, nshards := vlib.Shard()
	deadline := vlib.Deadline()
	filter := vlib.Param("ORACLE", prop)
	also := strings.Split(vlib.Param("ALSO", ""), ",")

	names := func(path []int) []string {
		var out []string
		for _, i := range path {
			out = append(out, alphabet[i].name)
		}
		return out
	}
	// build replays path (unchecked) and returns the system
	build := func(path []int) *vfCSys {
		s := vfNewCSys(dir, mode, max, withProxy)
		for _, i := range path {
			s.step(alphabet[i], false)
		}
		return s
	}
	seen := map[string]bool{}
	var frontier [][]int
	// level 1 is dealt to shards
	for i := range alphabet {
		if i%nshards == shard {
			frontier = append(frontier, []int{i})
		}
	}
	var states, transitions int64
	report := func(path []int, bad []string) {
		for _, b := range bad {
			tag := b[:3]
			ok := tag == filter
			for _, a := range also {
				if a == tag {
					ok = true
				}
			}
			if !ok {
				continue
			}
			rep.Violate(prop+" cache "+mode+" "+vfGeneric(b), fmt.Sprintf("mode=%s max_size=%d backend=%v after [%s]: %s", mode, max, withProxy, strings.Join(names(path), " ; "), b),
				map[string]interface{}{"engine": "E2-cache", "mode": mode, "max": max, "proxy": withProxy, "path": names(path)})
		}
	}
	// first the level-1 transitions themselves
	var level [][]int
	for _, p := range frontier {
		s := vfNewCSys(dir, mode, max, withProxy)
		bad := s.step(alphabet[p[0]], true)
		transitions++
		rep.Eval()
		report(p, bad)
		k := s.stateKey()
		s.close()
		if !seen[k] {
			seen[k] = true
			states++
			rep.Nontrivial(k)
			level = append(level, p)
		}
	}
	frontier = level
	for d := 1; d < depth && len(frontier) > 0; d++ {
		var next [][]int
	outer:
		for _, p := range frontier {
			for i := range alphabet {
				if time.Now().After(deadline) {
					rep.Cap(fmt.Sprintf("time budget at depth %d", d+1))
					next = nil
					break outer
				}
				s := build(p)
				bad := s.step(alphabet[i], true)
				transitions++
				rep.Eval()
				np := append(append([]int(nil), p...), i)
				report(np, bad)
				k := s.stateKey()
				s.close()
				if !seen[k] {
					seen[k] = true
					states++
					rep.Nontrivial(k)
					next = append(next, np)
					if states%400 == 7 {
						rep.Sample(map[string]interface{}{"engine": "E2-cache", "mode": mode, "path": names(np), "state": k})
					}
				}
			}
		}
		frontier = next
	}
	rep.States = states
	rep.Transitions = transitions
	rep.TracesValid = transitions
	rep.Extra["depth"] = depth
	rep.Extra["alphabet"] = len(alphabet)
	rep.Outcome(fmt.Sprintf("%s proxy=%v depth=%d", mode, withProxy, depth))
}
