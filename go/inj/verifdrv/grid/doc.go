// Package grid holds the server-level verification drivers (engine E4):
// exhaustive finite grids driven through the real HTTP and gRPC handlers.
// Injected into the repository module by overlay.
package grid
