package grid

// Multi-element batches (C01 / C02): BatchUpdateBlobs and BatchReadBlobs
// with several items per request - every sequence up to length 3 (4
// thorough) over a small alphabet of item kinds, including the same digest
// twice. Each item must be answered on its own merits, with a response that
// names its digest; a bad neighbour changes nothing.

import (
	"bytes"
	"fmt"
	"strings"
	"testing"

	"google.golang.org/grpc/codes"

	pb "github.com/buchgr/bazel-remote/v2/genproto/build/bazel/remote/execution/v2"
	"github.com/buchgr/bazel-remote/v2/verifdrv/vlib"
)

func seqs(alphabet string, maxLen int, fn func(string)) {
	var rec func(prefix string)
	rec = func(prefix string) {
		if len(prefix) > 0 {
			fn(prefix)
		}
		if len(prefix) == maxLen {
			return
		}
		for _, c := range alphabet {
			rec(prefix + string(c))
		}
	}
	rec("")
}

// TestC01BatchLists: G good, F one byte flipped, S declared size+1, T data
// truncated by one, D the previous good item again (same digest, same data),
// B the previous good item's digest with flipped data.
func TestC01BatchLists(t *testing.T) {
	cfg := strings.Split(vlib.Param("CONFIG", "zstd/go"), "/")
	mode, impl := cfg[0], cfg[1]
	rep := vlib.NewReport("C01", "E4-batchlists:"+mode+"/"+impl)
	defer rep.Write()
	f := newFx(fxOpts{mode: mode, impl: impl, validateAC: true})
	defer f.close()
	maxLen := 3
	if vlib.Thorough() {
		maxLen = 4
	}
	ctr := 0
	everGood := map[string]int64{} // digests acknowledged in any earlier cell (one-byte blobs repeat)
	for _, zs := range []bool{false, true} {
		for _, n := range []int{1, 700, 4097} {
			seqs("GFSTDB", maxLen, func(seq string) {
				if n != 700 && len(seq) > 2 {
					return
				}
				rep.Eval()
				ctr++
				req := &pb.BatchUpdateBlobsRequest{}
				type exp struct {
					d    *pb.Digest
					ok   bool
					data []byte
				}
				var want []exp
				var lastGood []byte
				goodDigests := map[string][]byte{}
				for i, c := range seq {
					content := vlib.Bytes(fmt.Sprintf("c01bl/%s/%s/%v/%d/%d/%d", mode, impl, zs, n, ctr, i), n, false)
					if n == 1 {
						content = []byte{byte((ctr*7 + i*3) % 251)}
					}
					d := &pb.Digest{Hash: vlib.Sha(content), SizeBytes: int64(n)}
					payload := content
					ok := false
					switch c {
					case 'G':
						ok = true
						lastGood = content
					case 'F':
						payload = flip(content, n/2)
					case 'S':
						d.SizeBytes = int64(n + 1)
					case 'T':
						payload = content[:n-1]
					case 'D', 'B':
						if lastGood == nil {
							// no previous good item: behaves like G / F
							if c == 'D' {
								ok = true
								lastGood = content
							} else {
								payload = flip(content, n/2)
							}
							break
						}
						content = lastGood
						d = &pb.Digest{Hash: vlib.Sha(content), SizeBytes: int64(len(content))}
						payload = content
						ok = true
						if c == 'B' {
							payload = flip(content, len(content)/2)
							ok = false
						}
					}
					if ok {
						goodDigests[d.Hash] = content
						everGood[d.Hash] = d.SizeBytes
					}
					wire := payload
					comp := pb.Compressor_IDENTITY
					if zs {
						wire = vlib.ZstdEncode(payload)
						comp = pb.Compressor_ZSTD
					}
					req.Requests = append(req.Requests, &pb.BatchUpdateBlobsRequest_Request{Digest: d, Data: wire, Compressor: comp})
					want = append(want, exp{d: d, ok: ok, data: content})
				}
				ctx, cancel := ctxT()
				resp, err := f.cas.BatchUpdateBlobs(ctx, req)
				cancel()
				id := fmt.Sprintf("%s/%s zstd_transport=%v size=%d items=[%s]", mode, impl, zs, n, seq)
				key := "C01 BatchUpdateBlobs list"
				replay := map[string]interface{}{"cell": id, "legend": "G good, F flipped, S size+1, T truncated, D previous good again, B previous good digest with flipped data"}
				if err != nil {
					rep.Violate(key+" call failed", fmt.Sprintf("%s: %v", id, err), replay)
					return
				}
				if len(resp.Responses) != len(want) {
					rep.Violate(key+" wrong number of responses", fmt.Sprintf("%s: %d responses for %d items", id, len(resp.Responses), len(want)), replay)
					return
				}
				// responses are matched by position when digests repeat, by digest otherwise
				for i, w := range want {
					r := resp.Responses[i]
					if r.Digest == nil || r.Digest.Hash != w.d.Hash || r.Digest.SizeBytes != w.d.SizeBytes {
						// look for it elsewhere (order is not promised)
						found := false
						for _, r2 := range resp.Responses {
							if r2.Digest != nil && r2.Digest.Hash == w.d.Hash && r2.Digest.SizeBytes == w.d.SizeBytes {
								found = true
							}
						}
						if !found {
							rep.Violate(key+" item without a response", fmt.Sprintf("%s: no response names item %d (%s/%d)", id, i, short(w.d.Hash), w.d.SizeBytes), replay)
						}
						continue
					}
					got := codes.Code(r.GetStatus().GetCode()) == codes.OK
					if got && !w.ok {
						rep.Violate(key+" bad item acknowledged", fmt.Sprintf("%s: item %d (%c) answered OK", id, i, seq[i]), replay)
					}
					if !got && w.ok {
						rep.Violate(key+" good item refused", fmt.Sprintf("%s: item %d (%c) answered %s", id, i, seq[i], codes.Code(r.GetStatus().GetCode())), replay)
					}
				}
				f.settle()
				for i, w := range want {
					_, acked := goodDigests[w.d.Hash]
					fm, _, _ := f.present(w.d.Hash, w.d.SizeBytes)
					if w.ok && !fm {
						rep.Violate(key+" acknowledged item not present", fmt.Sprintf("%s: item %d", id, i), replay)
					}
					_ = acked
					if sz, ever := everGood[w.d.Hash]; !w.ok && fm && !(ever && sz == w.d.SizeBytes) {
						rep.Violate(key+" refused item made its digest present", fmt.Sprintf("%s: item %d (%c)", id, i, seq[i]), replay)
					}
					if w.ok {
						rd := f.read("batch", w.d.Hash, w.d.SizeBytes, 0, 0)
						if !rd.ok || !bytes.Equal(rd.data, w.data) {
							rep.Violate(key+" acknowledged item not readable", fmt.Sprintf("%s: item %d reads back %s, %d bytes", id, i, rd.status, len(rd.data)), replay)
						}
					}
				}
				rep.Nontrivial(fmt.Sprintf("%v/%d/%s", zs, n, seq))
			})
		}
	}
	for _, p := range f.takePanics() {
		rep.Violate("C14 handler panic during C01 batch lists", p, nil)
	}
	for _, p := range f.invariants() {
		rep.Violate("C01 batch lists leave cache inconsistent: "+genericKey(p), p, nil)
	}
	rep.Sample(map[string]interface{}{"alphabet": "GFSTDB", "max_len": maxLen, "sizes": []int{1, 700, 4097}})
}

// TestC02BatchLists: P present, Q another present blob, A absent, E the
// empty blob, W a present hash with size+1, D = the previous item again.
func TestC02BatchLists(t *testing.T) {
	cfg := strings.Split(vlib.Param("CONFIG", "zstd/go"), "/")
	mode, impl := cfg[0], cfg[1]
	rep := vlib.NewReport("C02", "E4-batchlists:"+mode+"/"+impl)
	defer rep.Write()
	f := newFx(fxOpts{mode: mode, impl: impl, validateAC: true})
	defer f.close()
	mkp := func(tag string, n int) (*pb.Digest, []byte) {
		d := vlib.Bytes("c02bl/"+mode+"/"+impl+"/"+tag, n, false)
		dg := &pb.Digest{Hash: vlib.Sha(d), SizeBytes: int64(n)}
		if r := f.upload(upReq{path: "bs", hash: dg.Hash, size: dg.SizeBytes, wire: d, abortAfter: -1}); !r.ok {
			rep.BrokenHarness("upload: %s", r.status)
		}
		return dg, d
	}
	pd, pdata := mkp("P", 5000)
	qd, qdata := mkp("Q", 1<<20+3)
	ad := &pb.Digest{Hash: vlib.Sha([]byte("c02bl absent " + mode + impl)), SizeBytes: 77}
	ed := &pb.Digest{Hash: emptySha, SizeBytes: 0}
	wd := &pb.Digest{Hash: pd.Hash, SizeBytes: pd.SizeBytes + 1}
	maxLen := 3
	if vlib.Thorough() {
		maxLen = 4
	}
	for _, zs := range []bool{false, true} {
		seqs("PQAEWD", maxLen, func(seq string) {
			rep.Eval()
			req := &pb.BatchReadBlobsRequest{}
			if zs {
				req.AcceptableCompressors = []pb.Compressor_Value{pb.Compressor_ZSTD}
			}
			type exp struct {
				d    *pb.Digest
				data []byte // nil: not found
			}
			var want []exp
			for i, c := range seq {
				var e exp
				switch c {
				case 'P':
					e = exp{pd, pdata}
				case 'Q':
					e = exp{qd, qdata}
				case 'A':
					e = exp{ad, nil}
				case 'E':
					e = exp{ed, []byte{}}
				case 'W':
					e = exp{wd, nil}
				case 'D':
					if i == 0 {
						e = exp{pd, pdata}
					} else {
						e = want[i-1]
					}
				}
				want = append(want, e)
				req.Digests = append(req.Digests, &pb.Digest{Hash: e.d.Hash, SizeBytes: e.d.SizeBytes})
			}
			ctx, cancel := ctxT()
			resp, err := f.cas.BatchReadBlobs(ctx, req)
			cancel()
			id := fmt.Sprintf("%s/%s accept_zstd=%v digests=[%s]", mode, impl, zs, seq)
			key := "C02 BatchReadBlobs list"
			replay := map[string]interface{}{"cell": id, "legend": "P present 5000 B, Q present 1 MiB+3, A absent, E empty blob, W present hash with size+1, D previous item again"}
			if err != nil {
				rep.Violate(key+" call failed", fmt.Sprintf("%s: %v", id, err), replay)
				return
			}
			if len(resp.Responses) != len(want) {
				rep.Violate(key+" wrong number of responses", fmt.Sprintf("%s: %d responses for %d digests", id, len(resp.Responses), len(want)), replay)
				return
			}
			// every response must be right for the digest it names; every requested digest must be answered
			// as often as it was asked
			asked := map[string]int{}
			for _, w := range want {
				asked[fmt.Sprintf("%s/%d", w.d.Hash, w.d.SizeBytes)]++
			}
			for i, r := range resp.Responses {
				if r.Digest == nil {
					rep.Violate(key+" response without a digest", fmt.Sprintf("%s: response %d", id, i), replay)
					continue
				}
				k := fmt.Sprintf("%s/%d", r.Digest.Hash, r.Digest.SizeBytes)
				asked[k]--
				var w *exp
				for j := range want {
					if want[j].d.Hash == r.Digest.Hash && want[j].d.SizeBytes == r.Digest.SizeBytes {
						w = &want[j]
					}
				}
				if w == nil {
					rep.Violate(key+" response for a digest that was not asked", fmt.Sprintf("%s: response %d names %s", id, i, short(r.Digest.Hash)), replay)
					continue
				}
				c := codes.Code(r.GetStatus().GetCode())
				if w.data == nil {
					if c == codes.OK {
						rep.Violate(key+" absent digest answered OK", fmt.Sprintf("%s: response %d", id, i), replay)
					}
					continue
				}
				if c != codes.OK {
					rep.Violate(key+" present blob not delivered", fmt.Sprintf("%s: response %d answered %s", id, i, c), replay)
					continue
				}
				data := r.Data
				if r.Compressor == pb.Compressor_ZSTD {
					dec, derr := vlib.ZstdDecodeAll(data)
					if derr != nil {
						rep.Violate(key+" undecodable zstd data", fmt.Sprintf("%s: response %d: %v", id, i, derr), replay)
						continue
					}
					data = dec
				}
				if !bytes.Equal(data, w.data) {
					rep.Violate(key+" wrong bytes for the digest named", fmt.Sprintf("%s: response %d carries %d bytes that are not blob %s", id, i, len(data), short(r.Digest.Hash)), replay)
				}
			}
			for k, v := range asked {
				if v != 0 {
					rep.Violate(key+" digest not answered as often as asked", fmt.Sprintf("%s: %s off by %d", id, short(k), v), replay)
				}
			}
			rep.Nontrivial(fmt.Sprintf("%v/%s", zs, seq))
		})
	}
	for _, p := range f.takePanics() {
		rep.Violate("C14 handler panic during C02 batch lists", p, nil)
	}
	rep.Sample(map[string]interface{}{"alphabet": "PQAEWD", "max_len": maxLen})
}
