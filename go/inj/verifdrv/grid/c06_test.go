package grid

// C06: with validation and dependency checking on, an action-cache hit is
// answered only if every blob the stored ActionResult refers to is present
// with the stated size (locally or in the backend); otherwise a miss. A hit
// counts as a use of every referenced local blob.

import (
	"bytes"
	"context"
	"fmt"
	"net/http"
	"net/http/httptest"
	"os"
	"strings"
	"testing"
	"time"

	"google.golang.org/grpc/codes"
	"google.golang.org/grpc/status"
	"google.golang.org/protobuf/proto"

	"github.com/buchgr/bazel-remote/v2/cache"
	"github.com/buchgr/bazel-remote/v2/cache/disk"
	pb "github.com/buchgr/bazel-remote/v2/genproto/build/bazel/remote/execution/v2"
	"github.com/buchgr/bazel-remote/v2/verifdrv/vlib"
)

// slot is one position at which an ActionResult can refer to a CAS blob.
type c06Slot struct {
	present *pb.Digest // blob that is in the CAS
	absent  *pb.Digest // digest of a blob that is nowhere
	other   *pb.Digest // hash of a stored blob with another size
	backend *pb.Digest // blob only the backend holds
	tooBig  *pb.Digest // blob only the backend holds, larger than max_proxy_blob_size
	data    []byte
}

const c06MaxProxy = 1000

type c06Pool struct {
	f     *fx
	slots []c06Slot
	px    *vlib.FakeProxy
	mode  string
}

func newC06Pool(rep *vlib.Report, mode string, withBackend bool, n int) *c06Pool {
	p := &c06Pool{mode: mode}
	o := fxOpts{mode: mode, validateAC: true}
	if withBackend {
		p.px = vlib.NewFakeProxy()
		o.proxy = p.px
		o.maxProxy = c06MaxProxy
	}
	p.f = newFx(o)
	for i := 0; i < n; i++ {
		mk := func(tag string, sz int) (*pb.Digest, []byte) {
			d := vlib.Bytes(fmt.Sprintf("c06/%s/%v/%s%d", mode, withBackend, tag, i), sz, false)
			return &pb.Digest{Hash: vlib.Sha(d), SizeBytes: int64(sz)}, d
		}
		var s c06Slot
		pd, data := mk("P", 40+i)
		s.present, s.data = pd, data
		if err := p.f.cache.Put(context.Background(), cache.CAS, pd.Hash, pd.SizeBytes, bytes.NewReader(data)); err != nil {
			rep.BrokenHarness("pool upload: %v", err)
		}
		s.absent, _ = mk("A", 45+i)
		od, odata := mk("O", 50+i)
		if err := p.f.cache.Put(context.Background(), cache.CAS, od.Hash, od.SizeBytes, bytes.NewReader(odata)); err != nil {
			rep.BrokenHarness("pool upload: %v", err)
		}
		s.other = &pb.Digest{Hash: od.Hash, SizeBytes: od.SizeBytes + 1}
		if withBackend {
			bd, bdata := mk("B", 55+i)
			st := bdata
			if mode == "zstd" {
				st = vlib.EncodeCasBlob(bdata, 1<<20, true)
			}
			p.px.Set(cache.CAS, bd.Hash, st, bd.SizeBytes)
			s.backend = bd
			xd, xdata := mk("X", c06MaxProxy+1+i)
			xst := xdata
			if mode == "zstd" {
				xst = vlib.EncodeCasBlob(xdata, 1<<20, true)
			}
			p.px.Set(cache.CAS, xd.Hash, xst, xd.SizeBytes)
			s.tooBig = xd
		}
		p.slots = append(p.slots, s)
	}
	return p
}

// c06Shape builds an ActionResult; refs lists, in slot order, where it needs digests.
type c06Shape struct {
	name  string
	files []string // "D" digest only, "I" inline contents, "E" empty-blob digest
	tree  string   // "", "root1", "root2", "root1+child1", "root0+child0+child1", "nildigest"
	out   string   // stdout: "", "D", "E"
	errd  string   // stderr: "", "D", "E"
	many  int      // >0: that many extra digest-only files
}

func (s c06Shape) refs() int {
	n := s.many
	for _, f := range s.files {
		if f == "D" {
			n++
		}
	}
	switch s.tree {
	case "root1":
		n += 2
	case "root2":
		n += 3
	case "root1+child1":
		n += 3
	case "root0+child0+child1":
		n += 2
	case "nildigest":
		n += 2
	}
	if s.out == "D" || s.out == "RD" {
		n++
	}
	if s.errd == "D" || s.errd == "RD" {
		n++
	}
	return n
}

var emptyDigest = &pb.Digest{Hash: emptySha, SizeBytes: 0}

// build materialises the shape with digests chosen per slot by pick(j) and
// returns the ActionResult plus the tree blob to store (nil if none) at the
// slot index of the tree digest.
func (s c06Shape) build(pick func(j int) *pb.Digest) (*pb.ActionResult, *pb.Tree, int) {
	ar := &pb.ActionResult{ExitCode: 0, ExecutionMetadata: &pb.ExecutedActionMetadata{Worker: "w"}}
	j := 0
	next := func() *pb.Digest { d := pick(j); j++; return d }
	for i, f := range s.files {
		of := &pb.OutputFile{Path: fmt.Sprintf("f%d", i)}
		switch f {
		case "D":
			of.Digest = next()
		case "I":
			of.Contents = []byte("inline contents")
			of.Digest = &pb.Digest{Hash: vlib.Sha(of.Contents), SizeBytes: int64(len(of.Contents))}
		case "E":
			of.Digest = emptyDigest
		}
		ar.OutputFiles = append(ar.OutputFiles, of)
	}
	for i := 0; i < s.many; i++ {
		ar.OutputFiles = append(ar.OutputFiles, &pb.OutputFile{Path: fmt.Sprintf("m%d", i), Digest: next()})
	}
	var tree *pb.Tree
	treeSlot := -1
	if s.tree != "" {
		treeSlot = j
		j++ // the tree digest itself takes a slot; its blob is stored (or not) by the caller
		c06Ctr++
		// a symlink with a unique name makes every cell's Tree blob fresh
		tree = &pb.Tree{Root: &pb.Directory{Symlinks: []*pb.SymlinkNode{{Name: fmt.Sprintf("cell-%d", c06Ctr), Target: "t"}}}}
		fileNode := func(name string) *pb.FileNode { return &pb.FileNode{Name: name, Digest: next()} }
		switch s.tree {
		case "root1":
			tree.Root.Files = []*pb.FileNode{fileNode("a")}
		case "root2":
			tree.Root.Files = []*pb.FileNode{fileNode("a"), fileNode("b")}
		case "root1+child1":
			tree.Root.Files = []*pb.FileNode{fileNode("a")}
			tree.Children = []*pb.Directory{{Files: []*pb.FileNode{fileNode("c")}}}
		case "root0+child0+child1":
			tree.Children = []*pb.Directory{{}, {Files: []*pb.FileNode{fileNode("c")}}}
		case "nildigest":
			tree.Root.Files = []*pb.FileNode{{Name: "nil-digest"}, fileNode("a")}
		}
		ar.OutputDirectories = []*pb.OutputDirectory{{Path: "dir"}}
	}
	switch s.out {
	case "RD": // inline bytes AND a digest: the digest is a reference like any other
		ar.StdoutRaw = []byte("inline stdout")
		ar.StdoutDigest = next()
	case "D":
		ar.StdoutDigest = next()
	case "E":
		ar.StdoutDigest = emptyDigest
	}
	switch s.errd {
	case "RD":
		ar.StderrRaw = []byte("inline stderr")
		ar.StderrDigest = next()
	case "D":
		ar.StderrDigest = next()
	case "E":
		ar.StderrDigest = emptyDigest
	}
	return ar, tree, treeSlot
}

func c06Shapes(thorough bool) []c06Shape {
	fileSets := [][]string{{}, {"D"}, {"I"}, {"E"}, {"D", "D"}, {"D", "I"}}
	trees := []string{"", "root1", "root1+child1", "nildigest"}
	outs := []string{"", "D", "RD"}
	errs := []string{"", "D", "E"}
	if thorough {
		fileSets = append(fileSets, []string{"I", "D"}, []string{"E", "D"}, []string{"I", "I"}, []string{"D", "E"})
		trees = append(trees, "root2", "root0+child0+child1")
		outs = append(outs, "E")
		errs = append(errs, "RD")
	}
	var out []c06Shape
	for _, fs := range fileSets {
		for _, tr := range trees {
			for _, o := range outs {
				for _, e := range errs {
					out = append(out, c06Shape{name: fmt.Sprintf("files=%s tree=%s stdout=%s stderr=%s", strings.Join(fs, ""), tr, o, e), files: fs, tree: tr, out: o, errd: e})
				}
			}
		}
	}
	return out
}

type c06Answer struct {
	grpc     string // "hit", "miss", or code
	httpGet  int
	httpHead int
	ar       *pb.ActionResult
}

func (p *c06Pool) ask(key string) c06Answer {
	var a c06Answer
	var res *pb.ActionResult
	var err error
	// a client-side deadline on an overloaded machine is not an answer of the server: ask again
	// (a handler that really never answers is C14's subject and still ends up here as an error)
	for attempt := 0; attempt < 3; attempt++ {
		ctx, cancel := context.WithTimeout(context.Background(), time.Duration(60*(attempt+1))*time.Second)
		res, err = p.f.ac.GetActionResult(ctx, &pb.GetActionResultRequest{ActionDigest: &pb.Digest{Hash: key, SizeBytes: 1}})
		cancel()
		if status.Code(err) != codes.DeadlineExceeded {
			break
		}
		c06Retries++
	}
	switch {
	case err == nil:
		a.grpc, a.ar = "hit", res
	case status.Code(err) == codes.NotFound:
		a.grpc = "miss"
	default:
		a.grpc = status.Code(err).String()
	}
	a.httpGet = p.f.httpDo(httptest.NewRequest(http.MethodGet, "/ac/"+key, nil)).Code
	a.httpHead = p.f.httpDo(httptest.NewRequest(http.MethodHead, "/ac/"+key, nil)).Code
	return a
}

var c06Ctr int
var c06Retries int // GetActionResult calls re-asked after a client-side deadline

// runCell stores the AR (and its tree blob if treeState says so) and checks the three front ends.
func (p *c06Pool) runCell(rep *vlib.Report, cfg string, sh c06Shape, assign []byte, cls string) {
	p.runCellOver(rep, cfg, sh, assign, cls, nil, false, "")
}

// runCellOver: as runCell, but the slots in over refer to the given digests
// instead (aliasing between references: same blob twice, or the same hash
// with two different sizes); overMissing says whether one of them names a
// digest that is not stored.
func (p *c06Pool) runCellOver(rep *vlib.Report, cfg string, sh c06Shape, assign []byte, cls string, over map[int]*pb.Digest, overMissing bool, overName string) {
	rep.Eval()
	c06Ctr++
	pick := func(j int) *pb.Digest {
		if d, ok := over[j]; ok {
			return d
		}
		s := p.slots[j]
		switch assign[j] {
		case 'P':
			return s.present
		case 'A':
			return s.absent
		case 'S':
			return s.other
		case 'B':
			return s.backend
		case 'X':
			return s.tooBig
		}
		panic("bad assignment")
	}
	ar, tree, treeSlot := sh.build(pick)
	allThere := !overMissing
	for j := 0; j < len(assign); j++ {
		if assign[j] == 'A' || assign[j] == 'S' || assign[j] == 'X' {
			allThere = false
		}
	}
	ctx := context.Background()
	if tree != nil {
		tb, _ := proto.Marshal(tree)
		td := &pb.Digest{Hash: vlib.Sha(tb), SizeBytes: int64(len(tb))}
		switch assign[treeSlot] {
		case 'P':
			_ = p.f.cache.Put(ctx, cache.CAS, td.Hash, td.SizeBytes, bytes.NewReader(tb))
		case 'S':
			_ = p.f.cache.Put(ctx, cache.CAS, td.Hash, td.SizeBytes, bytes.NewReader(tb))
			td = &pb.Digest{Hash: td.Hash, SizeBytes: td.SizeBytes + 1}
		case 'B':
			st := tb
			if p.mode == "zstd" {
				st = vlib.EncodeCasBlob(tb, 1<<20, true)
			}
			p.px.Set(cache.CAS, td.Hash, st, td.SizeBytes)
		case 'A', 'X':
			// tree blob nowhere (X: treated like absent for the tree digest itself)
		case 'G', 'T':
			// the Tree blob is indexed, but its file is gone (G) or cut to 10 bytes (T) behind
			// the cache's back: reading it fails, which is an absence, not an error
			_ = p.f.cache.Put(ctx, cache.CAS, td.Hash, td.SizeBytes, bytes.NewReader(tb))
			for _, fn := range p.f.filesFor(td.Hash) {
				if assign[treeSlot] == 'G' {
					_ = os.Remove(fn)
				} else {
					_ = os.Truncate(fn, 10)
				}
			}
		}
		ar.OutputDirectories[0].TreeDigest = td
		if c := assign[treeSlot]; c == 'A' || c == 'S' || c == 'X' || c == 'G' || c == 'T' {
			allThere = false
		}
	}
	key := vlib.Sha([]byte(fmt.Sprintf("c06 action %d %s", c06Ctr, cfg)))
	data, _ := proto.Marshal(ar)
	if err := p.f.cache.Put(ctx, cache.AC, key, int64(len(data)), bytes.NewReader(data)); err != nil {
		rep.BrokenHarness("cannot store action result: %v", err)
		return
	}
	// a control blob used just before: referenced local blobs must end up more recent
	ans := p.ask(key)
	id := fmt.Sprintf("%s shape=[%s] referenced=%s%s -> grpc=%s GET=%d HEAD=%d", cfg, sh.name, string(assign), overName, ans.grpc, ans.httpGet, ans.httpHead)
	replay := map[string]interface{}{"cell": id, "legend": "G/T (tree slot only): Tree blob indexed but its file removed / truncated behind the cache; P present, A absent, S stored with another size, B backend only, X backend only and larger than max_proxy_blob_size; slots in the order files, tree digest, tree files, stdout, stderr"}
	wantG, wantH := "miss", 404
	if allThere {
		wantG, wantH = "hit", 200
	}
	k := "C06 " + cls
	if ans.grpc != wantG {
		what := "hit although a referenced blob is absent or has another size"
		if wantG == "hit" {
			what = "not a hit although every referenced blob is present (" + ans.grpc + ")"
		} else if ans.grpc != "hit" {
			what = "error instead of a miss (" + ans.grpc + ")"
		}
		rep.Violate(k+" GetActionResult: "+what, id, replay)
	}
	if ans.httpGet != wantH {
		rep.Violate(fmt.Sprintf("%s HTTP GET /ac answered %d, expected %d", k, ans.httpGet, wantH), id, replay)
	}
	if ans.httpHead != wantH {
		rep.Violate(fmt.Sprintf("%s HTTP HEAD /ac answered %d, expected %d", k, ans.httpHead, wantH), id, replay)
	}
	if ans.grpc == "hit" && wantG == "hit" && !strings.Contains(strings.Join(sh.files, ""), "I") && sh.out != "RD" && sh.errd != "RD" {
		ar.ExecutionMetadata = ans.ar.ExecutionMetadata
		if !proto.Equal(ans.ar, ar) {
			rep.Violate(k+" hit returns another message", id, replay)
		}
	}
	rep.Nontrivial(sh.name + "|" + string(assign) + overName)
	rep.Outcome(wantG)
	// keep the cache small: the cell's own action result (and Tree blob) are dropped again, so that
	// hundreds of thousands of cells never create space pressure on the pool blobs
	if cls != "recency" {
		disk.VfForget(p.f.cache, "ac/"+key)
		if tree != nil {
			tb, _ := proto.Marshal(tree)
			disk.VfForget(p.f.cache, "cas/"+vlib.Sha(tb))
		}
	}
}

// c06Aliases: for every ordered pair of reference slots (i<j) of the shape,
// all other slots present: both name the same stored blob (hit); i correct and
// j the same hash with another size (miss); i with another size and j correct
// (miss); both the same absent digest (miss).
func c06Aliases(rep *vlib.Report, p *c06Pool, cfg string, sh c06Shape) {
	k := sh.refs()
	all := bytes.Repeat([]byte("P"), k)
	_, _, treeSlot := sh.build(func(j int) *pb.Digest { return p.slots[j].present })
	for i := 0; i < k; i++ {
		for j := i + 1; j < k; j++ {
			if i == treeSlot || j == treeSlot {
				continue
			}
			good := p.slots[i].present
			bad := &pb.Digest{Hash: good.Hash, SizeBytes: good.SizeBytes + 1}
			small := &pb.Digest{Hash: good.Hash, SizeBytes: good.SizeBytes - 1}
			abs := p.slots[i].absent
			p.runCellOver(rep, cfg, sh, all, "alias", map[int]*pb.Digest{i: good, j: good}, false, fmt.Sprintf(" alias %d==%d", i, j))
			p.runCellOver(rep, cfg, sh, all, "alias", map[int]*pb.Digest{i: good, j: bad}, true, fmt.Sprintf(" alias %d good, %d same hash size+1", i, j))
			p.runCellOver(rep, cfg, sh, all, "alias", map[int]*pb.Digest{i: good, j: small}, true, fmt.Sprintf(" alias %d good, %d same hash size-1", i, j))
			p.runCellOver(rep, cfg, sh, all, "alias", map[int]*pb.Digest{i: bad, j: good}, true, fmt.Sprintf(" alias %d same hash size+1, %d good", i, j))
			p.runCellOver(rep, cfg, sh, all, "alias", map[int]*pb.Digest{i: abs, j: abs}, true, fmt.Sprintf(" alias %d==%d absent", i, j))
		}
	}
}

func enumAssign(k int, alphabet string, fn func([]byte)) {
	a := make([]byte, k)
	var rec func(i int)
	rec = func(i int) {
		if i == k {
			fn(append([]byte(nil), a...))
			return
		}
		for _, c := range []byte(alphabet) {
			a[i] = c
			rec(i + 1)
		}
	}
	rec(0)
}

func TestC06(t *testing.T) {
	mode := vlib.Param("MODE", "zstd")
	withBackend := vlib.Param("BACKEND", "0") == "1"
	rep := vlib.NewReport(vlib.Param("PROPERTY", "C06"), fmt.Sprintf("E4:shapes/%s/backend=%v", mode, withBackend))
	defer rep.Write()
	if vlib.Param("ONLY", "") == "recency" {
		// C05: "a use is ... any lookup that hit (..., ActionResult dependency check)": only the recency cells
		p := newC06Pool(rep, mode, withBackend, 30)
		defer p.f.close()
		cfg := fmt.Sprintf("mode=%s backend=%v", mode, withBackend)
		for i := 0; i < 3; i++ {
			c06Recency(rep, p, cfg)
		}
		return
	}
	shard, nshards := vlib.Shard()
	cfg := fmt.Sprintf("mode=%s backend=%v", mode, withBackend)
	p := newC06Pool(rep, mode, withBackend, 30)
	defer p.f.close()
	alphabet := "PAS"
	if withBackend {
		alphabet = "PABX"
	}
	maxK := 5
	if vlib.Thorough() {
		maxK = 7
	}
	for si, sh := range c06Shapes(vlib.Thorough()) {
		if si%nshards != shard {
			continue
		}
		k := sh.refs()
		if k > maxK {
			rep.Skip(fmt.Sprintf("shape with %d references (bound %d)", k, maxK))
			continue
		}
		enumAssign(k, alphabet, func(a []byte) { p.runCell(rep, cfg, sh, a, "shape") })
		if sh.tree != "" && !withBackend {
			// Tree blob indexed but its file is gone, everything else present (without a backend:
			// with one the blob was written through and is legitimately fetched back). A file
			// damaged in place is disk corruption, outside this property.
			_, _, ts := sh.build(func(j int) *pb.Digest { return p.slots[j].present })
			for _, c := range []byte("G") {
				a := bytes.Repeat([]byte("P"), k)
				a[ts] = c
				p.runCell(rep, cfg, sh, a, "tree-file-fault")
			}
		}
		if k >= 2 {
			c06Aliases(rep, p, cfg, sh)
		}
	}
	if shard == 0 {
		// many files: across the fail-fast batch size of 20
		sh := c06Shape{name: "files=25xD", many: 25}
		all := bytes.Repeat([]byte("P"), 25)
		p.runCell(rep, cfg, sh, all, "25-files")
		for i := 0; i < 25; i++ {
			for _, c := range []byte(alphabet[1:]) {
				a := append([]byte(nil), all...)
				a[i] = c
				p.runCell(rep, cfg, sh, a, "25-files")
			}
		}
		// recency: a hit refreshes every referenced local blob
		c06Recency(rep, p, cfg)
	}
	for _, pn := range p.f.takePanics() {
		rep.Violate("C14 handler panic during C06", pn, nil)
	}
	if c06Retries > 0 {
		rep.Extra["client_deadline_retries"] = c06Retries
	}
	rep.Sample(map[string]interface{}{"cfg": cfg, "shapes": len(c06Shapes(vlib.Thorough())), "alphabet": alphabet, "max_refs": maxK})
}

func c06Recency(rep *vlib.Report, p *c06Pool, cfg string) {
	sh := c06Shape{name: "files=DD tree=root1+child1 stdout=D stderr=D", files: []string{"D", "D"}, tree: "root1+child1", out: "D", errd: "D"}
	k := sh.refs()
	assign := bytes.Repeat([]byte("P"), k)
	// touch a control blob, then ask for the action result
	ctl := p.slots[29].present
	_, _ = p.f.cache.Contains(context.Background(), cache.CAS, ctl.Hash, ctl.SizeBytes)
	p.runCell(rep, cfg, sh, assign, "recency")
	st := disk.VfSnapshot(p.f.cache)
	pos := map[string]int{}
	for i, e := range st.Entries { // most recently used first
		pos[e.Key] = i
	}
	ctlPos, okCtl := pos["cas/"+ctl.Hash]
	if !okCtl {
		rep.BrokenHarness("recency: the control blob is not in the index")
		return
	}
	for j := 0; j < k; j++ {
		if j == 2 {
			continue // slot 2 is the tree digest (a freshly stored blob)
		}
		h := p.slots[j].present.Hash
		if _, ok := pos["cas/"+h]; !ok {
			rep.BrokenHarness("recency: pool blob of slot %d is not in the index", j)
			return
		}
		if pos["cas/"+h] > ctlPos {
			rep.Violate("C06 a hit does not count as a use of a referenced blob", fmt.Sprintf("%s: after the hit, referenced blob in slot %d is less recently used than a blob touched before the request", cfg, j), nil)
		}
	}
}
