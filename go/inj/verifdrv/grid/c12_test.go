package grid

// C12 (real proxies): two real caches chained through the real httpproxy /
// grpcproxy implementations. Write-through must let a peer recover the
// identical blob; read-through must deliver identical content; an HTTP fault
// layer in front of the backend cuts every response at every byte offset,
// answers 404/500, or hides Content-Length.

import (
	"bufio"
	"bytes"
	"context"
	"encoding/binary"
	"fmt"
	"net"
	"net/http"
	"net/http/httptest"
	"net/url"
	"os"
	"runtime"
	"strconv"
	"strings"
	"sync"
	"testing"
	"time"

	"google.golang.org/grpc"
	"google.golang.org/grpc/credentials/insecure"
	"google.golang.org/protobuf/proto"

	"github.com/buchgr/bazel-remote/v2/cache"
	"github.com/buchgr/bazel-remote/v2/cache/disk"
	"github.com/buchgr/bazel-remote/v2/cache/grpcproxy"
	"github.com/buchgr/bazel-remote/v2/cache/httpproxy"
	"github.com/buchgr/bazel-remote/v2/cache/s3proxy"
	pb "github.com/buchgr/bazel-remote/v2/genproto/build/bazel/remote/execution/v2"
	"github.com/buchgr/bazel-remote/v2/verifdrv/vlib"
	"github.com/minio/minio-go/v7"
	"github.com/minio/minio-go/v7/pkg/credentials"
)

// faultLayer sits in front of a backend's HTTP handler.
type faultLayer struct {
	mu      sync.Mutex
	inner   http.Handler
	cutAt   int // >=0: cut GET response bodies after this many bytes and drop the connection
	status  int // !=0: answer GETs with this status
	noLen   bool
	active  bool
	getSeen int
	sizeFld *int64 // non-nil: overwrite the logical-size field (bytes 8..16) of a cas.v2 object
	pad     int    // append this many bytes to the body (so that it is much longer than the header)
}

func (fl *faultLayer) setHeader(size int64, pad int) {
	fl.mu.Lock()
	fl.cutAt, fl.status, fl.noLen, fl.active = -1, 0, false, true
	fl.sizeFld, fl.pad = &size, pad
	fl.mu.Unlock()
}

func (fl *faultLayer) set(cut, status int, noLen bool) {
	fl.mu.Lock()
	fl.cutAt, fl.status, fl.noLen, fl.active = cut, status, noLen, true
	fl.mu.Unlock()
}

func (fl *faultLayer) clear() {
	fl.mu.Lock()
	fl.active, fl.sizeFld, fl.pad = false, nil, 0
	fl.mu.Unlock()
}

func (fl *faultLayer) ServeHTTP(w http.ResponseWriter, r *http.Request) {
	fl.mu.Lock()
	active, cut, status, noLen := fl.active, fl.cutAt, fl.status, fl.noLen
	sizeFld, pad := fl.sizeFld, fl.pad
	if r.Method == http.MethodGet {
		fl.getSeen++
	}
	fl.mu.Unlock()
	if !active || r.Method != http.MethodGet {
		fl.inner.ServeHTTP(w, r)
		return
	}
	if status != 0 {
		http.Error(w, "injected", status)
		return
	}
	rec := httptest.NewRecorder()
	fl.inner.ServeHTTP(rec, r)
	body := rec.Body.Bytes()
	for k, v := range rec.Header() {
		if k != "Content-Length" {
			w.Header()[k] = v
		}
	}
	if rec.Code != 200 {
		w.WriteHeader(rec.Code)
		_, _ = w.Write(body)
		return
	}
	if sizeFld != nil && len(body) >= 16 {
		// wrong size metadata INSIDE the object: the header's logical-size field
		body = append([]byte(nil), body...)
		binary.LittleEndian.PutUint64(body[8:16], uint64(*sizeFld))
		body = append(body, make([]byte, pad)...)
		w.Header().Set("Content-Length", fmt.Sprint(len(body)))
		w.WriteHeader(200)
		_, _ = w.Write(body)
		return
	}
	if noLen {
		w.WriteHeader(200)
		if f, ok := w.(http.Flusher); ok {
			f.Flush()
		}
		_, _ = w.Write(body)
		return
	}
	if cut >= 0 && cut < len(body) {
		w.Header().Set("Content-Length", fmt.Sprint(len(body)))
		w.WriteHeader(200)
		_, _ = w.Write(body[:cut])
		if hj, ok := w.(http.Hijacker); ok {
			if c, bufrw, err := hj.Hijack(); err == nil {
				_ = bufrw.Flush()
				_ = c.Close()
			}
		}
		return
	}
	w.Header().Set("Content-Length", fmt.Sprint(len(body)))
	w.WriteHeader(200)
	_, _ = w.Write(body)
}

// dumbStore is a plain HTTP object store (what http_proxy expects). With s3
// set it answers the way an S3 endpoint does for the three calls the s3proxy
// backend makes through the real minio client (PutObject, GetObject,
// StatObject; path-style addressing): aws-chunked request bodies are decoded,
// objects carry Last-Modified and ETag, an absent key is a NoSuchKey document.
type dumbStore struct {
	mu  sync.Mutex
	obj map[string][]byte
	s3  bool
}

// awsChunked decodes the "aws-chunked" content encoding (signed or unsigned
// chunks, optional trailers) minio uses for uploads over plain HTTP.
func awsChunked(b []byte) ([]byte, bool) {
	br := bufio.NewReader(bytes.NewReader(b))
	var out []byte
	for {
		line, err := br.ReadString('\n')
		if err != nil {
			return nil, false
		}
		line = strings.TrimRight(line, "\r\n")
		if i := strings.IndexByte(line, ';'); i >= 0 {
			line = line[:i]
		}
		n, err := strconv.ParseInt(line, 16, 64)
		if err != nil || n < 0 {
			return nil, false
		}
		if n == 0 {
			return out, true
		}
		buf := make([]byte, n+2)
		if _, err := readFull(br, buf); err != nil {
			return nil, false
		}
		out = append(out, buf[:n]...)
	}
}

func readFull(r *bufio.Reader, buf []byte) (int, error) {
	k := 0
	for k < len(buf) {
		n, err := r.Read(buf[k:])
		k += n
		if err != nil {
			return k, err
		}
	}
	return k, nil
}

func (d *dumbStore) ServeHTTP(w http.ResponseWriter, r *http.Request) {
	d.mu.Lock()
	defer d.mu.Unlock()
	switch r.Method {
	case http.MethodPut:
		b := readAllClose(r.Body)
		if d.s3 && (strings.HasPrefix(r.Header.Get("X-Amz-Content-Sha256"), "STREAMING-") || strings.Contains(r.Header.Get("Content-Encoding"), "aws-chunked")) {
			dec, ok := awsChunked(b)
			if !ok {
				w.WriteHeader(400)
				return
			}
			if want := r.Header.Get("X-Amz-Decoded-Content-Length"); want != "" && want != fmt.Sprint(len(dec)) {
				w.WriteHeader(400)
				return
			}
			b = dec
		}
		d.obj[r.URL.Path] = b
		if d.s3 {
			w.Header().Set("ETag", `"`+vlib.Sha(b)[:32]+`"`)
		}
		w.WriteHeader(200)
	case http.MethodGet, http.MethodHead:
		b, ok := d.obj[r.URL.Path]
		if !ok {
			if d.s3 {
				w.Header().Set("Content-Type", "application/xml")
				w.WriteHeader(404)
				if r.Method == http.MethodGet {
					_, _ = w.Write([]byte(`<?xml version="1.0" encoding="UTF-8"?><Error><Code>NoSuchKey</Code><Message>The specified key does not exist.</Message><Key>` + r.URL.Path + `</Key></Error>`))
				}
				return
			}
			http.NotFound(w, r)
			return
		}
		if d.s3 {
			w.Header().Set("Last-Modified", "Mon, 02 Jan 2006 15:04:05 GMT")
			w.Header().Set("ETag", `"`+vlib.Sha(b)[:32]+`"`)
			w.Header().Set("Content-Type", "application/octet-stream")
		}
		w.Header().Set("Content-Length", fmt.Sprint(len(b)))
		w.WriteHeader(200)
		if r.Method == http.MethodGet {
			_, _ = w.Write(b)
		}
	default:
		w.WriteHeader(405)
	}
}

func (d *dumbStore) has(path string) bool {
	d.mu.Lock()
	defer d.mu.Unlock()
	_, ok := d.obj[path]
	return ok
}

// pathOf returns the path under which an object whose name ends in suffix is stored.
func (d *dumbStore) pathOf(suffix string) string {
	d.mu.Lock()
	defer d.mu.Unlock()
	for p := range d.obj {
		if strings.HasSuffix(p, suffix) {
			return p
		}
	}
	return ""
}

func repoGoroutines() int {
	buf := make([]byte, 4<<20)
	n := runtime.Stack(buf, true)
	cnt := 0
	for _, g := range strings.Split(string(buf[:n]), "\n\n") {
		if strings.Contains(g, "bazel-remote/v2/cache/") || strings.Contains(g, "bazel-remote/v2/server.") || strings.Contains(g, "net/http.(*persistConn)") {
			if strings.Contains(g, "containsWorker") || strings.Contains(g, "performQueuedEvictionsContinuously") || strings.Contains(g, "StartUploaders") || strings.Contains(g, "verifdrv/grid") {
				continue
			}
			cnt++
		}
	}
	return cnt
}

func openFDs() int {
	des, err := os.ReadDir("/proc/self/fd")
	if err != nil {
		return -1
	}
	return len(des)
}

func waitFor(cond func() bool) bool {
	deadline := time.Now().Add(20 * time.Second)
	for time.Now().Before(deadline) {
		if cond() {
			return true
		}
		time.Sleep(2 * time.Millisecond)
	}
	return false
}

type chainObj struct {
	kind cache.EntryKind
	hash string
	data []byte
	name string
}

func TestC12Chain(t *testing.T) {
	mode := vlib.Param("MODE", "zstd")
	via := vlib.Param("VIA", "http")
	rep := vlib.NewReport(vlib.Param("PROPERTY", "C12"), fmt.Sprintf("E3-chain:%s/%s", via, mode))
	defer rep.Write()
	sl := vlib.SilentLogger()

	back := newFx(fxOpts{mode: mode, validateAC: false, asset: true})
	defer back.close()
	store := &dumbStore{obj: map[string][]byte{}, s3: via == "s3"}
	fl := &faultLayer{inner: store}
	bsrv := httptest.NewServer(fl)
	defer func() {
		// a client that leaked a response body keeps its handler blocked in Write: cut such
		// connections first, Close would wait for them for ever
		bsrv.CloseClientConnections()
		bsrv.Close()
	}()
	mkS3 := func(uploaders int) cache.Proxy {
		// the real s3proxy backend and the real minio client, path-style addressing, signed requests
		return s3proxy.New(strings.TrimPrefix(bsrv.URL, "http://"), "bkt", minio.BucketLookupPath, "pfx",
			credentials.NewStaticV4("AKIDEXAMPLE", "secret", ""), true, false, "us-east-1", 4, mode, sl, sl, uploaders, 64)
	}
	storedPath := func(o chainObj) string {
		if via == "s3" {
			return store.pathOf("/" + o.hash)
		}
		return requestPath(mode, o)
	}

	mkProxy := func() cache.Proxy {
		if via == "s3" {
			return mkS3(2)
		}
		if via == "http" {
			u, _ := url.Parse(bsrv.URL)
			p, err := httpproxy.New(u, mode, &http.Client{Timeout: 30 * time.Second}, sl, sl, 2, 64)
			if err != nil {
				panic(err)
			}
			return p
		}
		conn, err := grpc.NewClient("passthrough://bufnet", grpc.WithTransportCredentials(insecure.NewCredentials()),
			grpc.WithContextDialer(func(context.Context, string) (net.Conn, error) { return back.lis.Dial() }),
			grpc.WithDefaultCallOptions(grpc.MaxCallRecvMsgSize(64<<20), grpc.MaxCallSendMsgSize(64<<20)))
		if err != nil {
			panic(err)
		}
		return grpcproxy.New(grpcproxy.NewGrpcClients(conn), mode, sl, sl, 2, 64)
	}
	arBytes := []byte{0x20, 0x07} // ActionResult{exit_code: 7}
	objs := []chainObj{
		{cache.CAS, "", vlib.Bytes("c12chain/small", 180, true), "cas-180"},
		{cache.CAS, "", vlib.Bytes("c12chain/big", 1<<20+1, false), "cas-1MiB+1"},
		{cache.AC, vlib.Sha([]byte("c12chain/ac")), arBytes, "ac"},
	}
	for i := range objs {
		if objs[i].kind == cache.CAS {
			objs[i].hash = vlib.Sha(objs[i].data)
		}
	}

	// ---- write-through: upload to A, a fresh peer recovers it via B ----
	a := newFx(fxOpts{mode: mode, validateAC: false, proxy: mkProxy()})
	for _, o := range objs {
		rep.Eval()
		err := a.cache.Put(context.Background(), o.kind, o.hash, int64(len(o.data)), bytes.NewReader(o.data))
		id := fmt.Sprintf("via=%s mode=%s %s", via, mode, o.name)
		if err != nil {
			rep.Violate("C12 chain upload failed", fmt.Sprintf("%s: %v", id, err), nil)
			continue
		}
		okb := waitFor(func() bool {
			if via == "s3" {
				return store.pathOf("/"+o.hash) != ""
			}
			if via == "http" {
				return store.has(requestPath(mode, o))
			}
			ok, _ := back.cache.Contains(context.Background(), o.kind, o.hash, -1)
			return ok
		})
		if !okb {
			rep.Violate("C12 chain via="+via+" accepted upload did not reach the backend", id, nil)
			continue
		}
		peer := newFx(fxOpts{mode: mode, validateAC: false, proxy: mkProxy()})
		for _, known := range []bool{true, false} {
			rep.Eval() // one evaluation per peer read
			size := int64(-1)
			if known {
				size = int64(len(o.data))
			}
			rc, sz, err := peer.cache.Get(context.Background(), o.kind, o.hash, size, 0)
			var got []byte
			if rc != nil {
				got = readAllClose(rc)
			}
			if via == "grpc" && o.kind != cache.CAS {
				// a gRPC backend stores ActionResults as messages and fills in
				// the worker name (documented): compare as messages, size unknown only
				if known {
					continue
				}
				var a1, a2 pb.ActionResult
				e1, e2 := proto.Unmarshal(got, &a1), proto.Unmarshal(o.data, &a2)
				if a1.ExecutionMetadata != nil {
					a1.ExecutionMetadata.Worker = ""
					if proto.Size(a1.ExecutionMetadata) == 0 {
						a1.ExecutionMetadata = nil
					}
				}
				if err != nil || e1 != nil || e2 != nil || !proto.Equal(&a1, &a2) || sz != int64(len(got)) {
					rep.Violate("C12 chain via=grpc peer does not recover the action result", fmt.Sprintf("%s: err=%v/%v/%v size=%d len=%d equal=%v", id, err, e1, e2, sz, len(got), proto.Equal(&a1, &a2)), nil)
				} else {
					rep.Nontrivial(id + "ac-message")
				}
				continue
			}
			if err != nil || !bytes.Equal(got, o.data) || sz != int64(len(o.data)) {
				rep.Violate(fmt.Sprintf("C12 chain via=%s peer does not recover the identical blob (%s, size known=%v)", via, o.kind, known),
					fmt.Sprintf("%s: peer read: err=%v, %d bytes (want %d), size %d", id, err, len(got), len(o.data), sz), nil)
			} else {
				rep.Nontrivial(id + fmt.Sprint(known))
			}
		}
		// existence through the real backend client: the same hash with another size is a
		// different digest (C10). Over HTTP in compressed mode the backend cannot tell the
		// logical size (it reports "unknown"), so only the modes that can are required to.
		if o.kind == cache.CAS && (via == "grpc" || mode == "uncompressed") {
			rep.Eval()
			fresh := newFx(fxOpts{mode: mode, validateAC: false, proxy: mkProxy()})
			n := int64(len(o.data))
			ctx, cancel := ctxT()
			resp, err := fresh.cas.FindMissingBlobs(ctx, &pb.FindMissingBlobsRequest{BlobDigests: []*pb.Digest{{Hash: o.hash, SizeBytes: n}, {Hash: o.hash, SizeBytes: n + 1}, {Hash: o.hash, SizeBytes: n - 1}}})
			cancel()
			var miss []int64
			for _, d := range resp.GetMissingBlobDigests() {
				miss = append(miss, d.SizeBytes)
			}
			if err != nil || len(miss) != 2 || miss[0] != n+1 || miss[1] != n-1 {
				rep.Violate(fmt.Sprintf("C12 chain via=%s FindMissingBlobs through the backend ignores the size", via), fmt.Sprintf("%s: backend holds %s/%d; asked for sizes %d, %d, %d; reported missing: %v (err %v)", id, short(o.hash), n, n, n+1, n-1, miss, err), nil)
			} else {
				rep.Nontrivial(id + "findmissing-sizes")
			}
			fresh.close()
		}
		peer.settle()
		for _, p := range peer.invariants() {
			rep.Violate("C12 chain peer inconsistent "+genericKey(p), id+": "+p, nil)
		}
		peer.close()
	}
	a.close()

	// ---- a backend configured not to upload (num_uploaders = 0, documented: "proxy backends
	// won't upload blobs"): accepted local uploads must still release their files ----
	{
		var ro cache.Proxy
		if via == "s3" {
			ro = mkS3(0)
		} else if via == "http" {
			u, _ := url.Parse(bsrv.URL)
			ro, _ = httpproxy.New(u, mode, &http.Client{Timeout: 30 * time.Second}, sl, sl, 0, 64)
		} else {
			conn, _ := grpc.NewClient("passthrough://bufnet", grpc.WithTransportCredentials(insecure.NewCredentials()),
				grpc.WithContextDialer(func(context.Context, string) (net.Conn, error) { return back.lis.Dial() }))
			ro = grpcproxy.New(grpcproxy.NewGrpcClients(conn), mode, sl, sl, 0, 64)
		}
		if ro != nil {
			rofx := newFx(fxOpts{mode: mode, validateAC: false, proxy: ro})
			base, _ := fdsInto(rofx.dir)
			for i := 0; i < 20; i++ {
				rep.Eval()
				d := vlib.Bytes(fmt.Sprintf("c12chain/readonly/%s/%s/%d", via, mode, i), 3000+i, false)
				if err := rofx.cache.Put(context.Background(), cache.CAS, vlib.Sha(d), int64(len(d)), bytes.NewReader(d)); err != nil {
					rep.Violate("C12 chain upload failed with a non-uploading backend", fmt.Sprintf("via=%s mode=%s: %v", via, mode, err), nil)
				}
			}
			rofx.settle()
			if ok := waitFor(func() bool { k, _ := fdsInto(rofx.dir); return k <= base }); !ok {
				k, first := fdsInto(rofx.dir)
				rep.Violate(fmt.Sprintf("C12 chain via=%s files left open with num_uploaders=0", via), fmt.Sprintf("via=%s mode=%s: after 20 accepted uploads %d descriptors into the cache directory are still open (before: %d), e.g. %s", via, mode, k, base, first), nil)
			} else {
				rep.Nontrivial(fmt.Sprintf("readonly %s %s", via, mode))
			}
			rofx.close()
		}
	}

	// ---- absent entries: miss, no panic ----
	c := newFx(fxOpts{mode: mode, validateAC: false, proxy: mkProxy()})
	absent := vlib.Sha([]byte("absent"))
	for _, kind := range []cache.EntryKind{cache.CAS, cache.AC, cache.RAW} {
		for _, size := range []int64{-1, 10} {
			rep.Eval()
			func() {
				defer func() {
					if r := recover(); r != nil {
						rep.Violate(fmt.Sprintf("C12 chain via=%s panic on absent entry (%s)", via, kind), fmt.Sprintf("via=%s mode=%s kind=%s size=%d: %v", via, mode, kind, size, r), nil)
					}
				}()
				rc, _, err := c.cache.Get(context.Background(), kind, absent, size, 0)
				if rc != nil {
					rep.Violate("C12 chain hit for an absent entry", fmt.Sprintf("via=%s kind=%s", via, kind), nil)
					_ = rc.Close()
				}
				_ = err
				ok, _ := c.cache.Contains(context.Background(), kind, absent, size)
				if ok {
					rep.Violate("C12 chain absent entry reported present", fmt.Sprintf("via=%s kind=%s", via, kind), nil)
				}
				rep.Nontrivial(fmt.Sprintf("absent %s %s %d", via, kind, size))
			}()
		}
	}
	c.close()

	// ---- HTTP fault layer: every byte offset ----
	if via == "http" || via == "s3" {
		small := objs[0]
		ac := objs[2]
		baseG, baseF := 0, 0
		_, _ = baseG, baseF
		for _, o := range []chainObj{small, ac} {
			// what the backend serves for this object (stored form)
			rec := httptest.NewRecorder()
			p := "/cas.v2/" + o.hash
			if mode != "zstd" || o.kind != cache.CAS {
				p = "/" + o.kind.String() + "/" + o.hash
			}
			_ = p
			if storedPath(o) == "" {
				rep.BrokenHarness("backend does not hold %s", o.name)
				continue
			}
			req := httptest.NewRequest("GET", storedPath(o), nil)
			store.ServeHTTP(rec, req)
			n := rec.Body.Len()
			if rec.Code != 200 || n == 0 {
				rep.BrokenHarness("backend does not serve %s at %s: %d", o.name, storedPath(o), rec.Code)
				continue
			}
			type ft struct {
				name      string
				cut, code int
				noLen     bool
				hdrSize   *int64
				pad       int
			}
			i64 := func(v int64) *int64 { return &v }
			faults := []ft{{name: "status-404", cut: -1, code: 404}, {name: "status-500", cut: -1, code: 500}, {name: "no-content-length", cut: -1, noLen: true}}
			if via == "s3" {
				// the minio client re-asks after a 5xx (up to 10 times, with back-off): 403 is the
				// quick tier's "error answer"; the 500 cell (slow, because of those retries) is thorough only
				faults = []ft{{name: "status-404", cut: -1, code: 404}, {name: "status-403", cut: -1, code: 403}, {name: "no-content-length", cut: -1, noLen: true}}
				if vlib.Thorough() {
					faults = append(faults, ft{name: "status-500", cut: -1, code: 500})
				}
			}
			for k := 0; k < n; k++ {
				faults = append(faults, ft{name: fmt.Sprintf("cut-at-%d", k), cut: k})
			}
			if mode == "zstd" && o.kind == cache.CAS {
				// the stored object's own header lies about the logical size (short and long bodies)
				for _, hs := range []int64{0, -1, int64(len(o.data)) + 1, int64(len(o.data)) - 1} {
					for _, pad := range []int{0, 4 << 20} {
						faults = append(faults, ft{name: fmt.Sprintf("header-size-field=%d-body+%d", hs, pad), cut: -1, hdrSize: i64(hs), pad: pad})
					}
				}
			}
			front := newFx(fxOpts{mode: mode, validateAC: false, proxy: mkProxy()})
			var g1, f1 int
			for round := 0; round < 2; round++ {
				for _, f := range faults {
					for _, known := range []bool{true, false} {
						rep.Eval()
						size := int64(-1)
						if known {
							size = int64(len(o.data))
						}
						id := fmt.Sprintf("via=%s mode=%s %s size_known=%v fault=%s", via, mode, o.name, known, f.name)
						cls := fmt.Sprintf("C12 chain %s mode=%s kind=%s fault=%s", via, mode, o.kind, strings.Split(f.name, "-at-")[0])
						if f.hdrSize != nil {
							fl.setHeader(*f.hdrSize, f.pad)
						} else {
							fl.set(f.cut, f.code, f.noLen)
						}
						rc, sz, err := front.cache.Get(context.Background(), o.kind, o.hash, size, 0)
						fl.clear()
						// a lie INSIDE the stored object (its header's size field) is corrupted content, and
						// the backend is trusted for content it delivers completely: for these cells only the
						// leak oracles below apply, not the content oracles
						contentTrusted := f.hdrSize == nil
						if rc != nil {
							got := readAllClose(rc)
							if contentTrusted && err == nil && (!bytes.Equal(got, o.data) || sz != int64(len(o.data))) {
								rep.Violate(cls+" hit with wrong, short or mis-sized content", fmt.Sprintf("%s: %d bytes (blob has %d), size %d", id, len(got), len(o.data), sz), nil)
							}
						}
						// poisoning: whatever is cached locally must be exact; then drop
						// it again so that the next cell goes to the backend
						st := disk.VfSnapshot(front.cache)
						for _, e := range st.Entries {
							if strings.HasSuffix(e.Key, o.hash) {
								rc2, sz2, err2 := front.cache.Get(context.Background(), o.kind, o.hash, -1, 0)
								var got2 []byte
								if rc2 != nil {
									got2 = readAllClose(rc2)
								}
								if contentTrusted && (err2 != nil || !bytes.Equal(got2, o.data) || sz2 != int64(len(o.data))) {
									rep.Violate(cls+" poisoned local entry", fmt.Sprintf("%s: locally cached entry reads err=%v %d bytes size %d", id, err2, len(got2), sz2), nil)
								}
								disk.VfForget(front.cache, e.Key)
							}
						}
						rep.Nontrivial(id)
						if os.Getenv("VERIF_PARAM_DEBUGLEAK") == "1" {
							time.Sleep(20 * time.Millisecond)
							fmt.Fprintf(os.Stderr, "LEAKDBG %s g=%d fd=%d\n", id, repoGoroutines(), openFDs())
						}
					}
				}
				front.settle()
				time.Sleep(50 * time.Millisecond)
				runtime.GC()
				if round == 0 {
					g1, f1 = repoGoroutines(), openFDs()
					baseG, baseF = g1, f1
				}
			}
			// leaks: a second identical round must not need more goroutines / descriptors than the first
			okLeak := waitFor(func() bool {
				runtime.GC()
				return repoGoroutines() <= g1+2 && openFDs() <= f1+2
			})
			if !okLeak {
				rep.Violate("C12 chain "+via+" leak after backend faults", fmt.Sprintf("via="+via+" mode=%s %s: after one round of %d faulty fetches: %d goroutines with repository/persistConn frames and %d fds; after a second identical round: %d and %d", mode, o.name, 2*len(faults), g1, f1, repoGoroutines(), openFDs()), nil)
			}
			front.settle()
			for _, p := range front.invariants() {
				rep.Violate("C12 chain frontend inconsistent "+genericKey(p), fmt.Sprintf("via=%s mode=%s %s: %s", via, mode, o.name, p), nil)
			}
			// leaks: goroutines with repository frames / connections and fds return to the baseline
			front.close()
		}
	}
	rep.Sample(map[string]interface{}{"via": via, "mode": mode, "objects": []string{objs[0].name, objs[1].name, objs[2].name}})
	_ = pb.Compressor_ZSTD
}

func requestPath(mode string, o chainObj) string {
	if o.kind == cache.CAS && mode == "zstd" {
		return "/cas.v2/" + o.hash
	}
	return "/" + o.kind.String() + "/" + o.hash
}

func readAllClose(rc interface {
	Read([]byte) (int, error)
	Close() error
}) []byte {
	var out []byte
	buf := make([]byte, 64<<10)
	for {
		n, err := rc.Read(buf)
		if n > 0 {
			out = append(out, buf[:n]...)
		}
		if err != nil {
			break
		}
	}
	_ = rc.Close()
	return out
}
