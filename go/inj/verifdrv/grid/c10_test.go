package grid

// C10: FindMissingBlobs returns precisely the requested digests that are
// neither local (with the stated size) nor reported present by the backend,
// in request order, duplicates preserved; the empty blob is never missing.

import (
	"context"
	"fmt"
	"strings"
	"testing"

	"github.com/buchgr/bazel-remote/v2/cache"
	pb "github.com/buchgr/bazel-remote/v2/genproto/build/bazel/remote/execution/v2"
	"github.com/buchgr/bazel-remote/v2/verifdrv/vlib"
)

type c10Digest struct {
	d       *pb.Digest
	missing bool
	what    string
}

func c10Call(rep *vlib.Report, f *fx, cfg, cls string, list []c10Digest) {
	rep.Eval()
	ctx, cancel := ctxT()
	defer cancel()
	req := &pb.FindMissingBlobsRequest{}
	var want []string
	var shape []string
	for _, x := range list {
		req.BlobDigests = append(req.BlobDigests, &pb.Digest{Hash: x.d.Hash, SizeBytes: x.d.SizeBytes})
		if x.missing {
			want = append(want, fmt.Sprintf("%s/%d", x.d.Hash, x.d.SizeBytes))
		}
		shape = append(shape, x.what)
	}
	resp, err := f.cas.FindMissingBlobs(ctx, req)
	id := fmt.Sprintf("%s list=[%s]", cfg, strings.Join(shape, " "))
	if len(id) > 900 {
		id = id[:900] + "..."
	}
	if err != nil {
		rep.Violate("C10 "+cls+" call failed", fmt.Sprintf("%s: %v", id, err), map[string]interface{}{"shape": shape})
		return
	}
	var got []string
	for _, d := range resp.MissingBlobDigests {
		got = append(got, fmt.Sprintf("%s/%d", d.Hash, d.SizeBytes))
	}
	if strings.Join(got, ",") != strings.Join(want, ",") {
		// classify
		gs, ws := map[string]int{}, map[string]int{}
		for _, g := range got {
			gs[g]++
		}
		for _, w := range want {
			ws[w]++
		}
		kind := "wrong order or multiplicity"
		for w := range ws {
			if gs[w] == 0 {
				kind = "absent digest not reported missing"
			}
		}
		for g := range gs {
			if ws[g] == 0 {
				kind = "present digest reported missing"
			}
		}
		rep.Violate("C10 "+cls+" "+kind, fmt.Sprintf("%s: reported %d missing, expected %d; first difference at #%d", id, len(got), len(want), firstDiff(got, want)),
			map[string]interface{}{"shape": shape, "got": shortAll(got), "want": shortAll(want)})
		return
	}
	rep.Nontrivial(cls + "|" + strings.Join(shape, ""))
}

func firstDiff(a, b []string) int {
	for i := 0; i < len(a) && i < len(b); i++ {
		if a[i] != b[i] {
			return i
		}
	}
	if len(a) < len(b) {
		return len(a)
	}
	return len(b)
}

func shortAll(xs []string) []string {
	out := make([]string, len(xs))
	for i, x := range xs {
		if len(x) > 8 {
			out[i] = x[:8] + x[strings.Index(x, "/"):]
		} else {
			out[i] = x
		}
	}
	return out
}

func TestC10(t *testing.T) {
	mode := vlib.Param("MODE", "zstd")
	rep := vlib.NewReport("C10", "E4:lists/"+mode)
	defer rep.Write()
	f := newFx(fxOpts{mode: mode, validateAC: true})
	defer f.close()
	const N = 46
	var present, absent []c10Digest
	for i := 0; i < N; i++ {
		d := vlib.Bytes(fmt.Sprintf("c10/%s/p%d", mode, i), 50+i, false)
		h := vlib.Sha(d)
		if r := f.upload(upReq{path: "batch", hash: h, size: int64(len(d)), wire: d, abortAfter: -1}); !r.ok {
			rep.BrokenHarness("upload: %s", r.status)
			return
		}
		present = append(present, c10Digest{d: &pb.Digest{Hash: h, SizeBytes: int64(len(d))}, what: "P"})
		a := vlib.Bytes(fmt.Sprintf("c10/%s/a%d", mode, i), 60+i, false)
		absent = append(absent, c10Digest{d: &pb.Digest{Hash: vlib.Sha(a), SizeBytes: int64(len(a))}, missing: true, what: "a"})
	}
	empty := c10Digest{d: &pb.Digest{Hash: emptySha, SizeBytes: 0}, what: "E"}
	wrongSize := func(i int) c10Digest {
		return c10Digest{d: &pb.Digest{Hash: present[i].d.Hash, SizeBytes: present[i].d.SizeBytes + 1}, missing: true, what: "s"}
	}
	cfg := "mode=" + mode + " no backend"
	// every length 0..45: single missing and single present at every index
	for n := 0; n <= 45; n++ {
		all := make([]c10Digest, n)
		copy(all, present[:n])
		c10Call(rep, f, cfg, "all-present", all)
		none := make([]c10Digest, n)
		copy(none, absent[:n])
		c10Call(rep, f, cfg, "all-absent", none)
		step := 1
		if !vlib.Thorough() && n > 25 {
			step = 3
		}
		for i := 0; i < n; i += step {
			l := make([]c10Digest, n)
			copy(l, present[:n])
			l[i] = absent[i]
			c10Call(rep, f, cfg, "single-missing", l)
			l2 := make([]c10Digest, n)
			copy(l2, absent[:n])
			l2[i] = present[i]
			c10Call(rep, f, cfg, "single-present", l2)
			l3 := make([]c10Digest, n)
			copy(l3, present[:n])
			l3[i] = wrongSize(i)
			c10Call(rep, f, cfg, "size-mismatch", l3)
			l4 := make([]c10Digest, n)
			copy(l4, absent[:n])
			l4[i] = empty
			c10Call(rep, f, cfg, "empty-digest", l4)
		}
	}
	// all 2^k patterns in windows straddling the internal batch boundaries of 20 and 40
	k := 8
	if vlib.Thorough() {
		k = 10
	}
	for _, start := range []int{0, 15, 35} {
		for mask := 0; mask < 1<<k; mask++ {
			l := make([]c10Digest, 45)
			copy(l, present[:45])
			for b := 0; b < k; b++ {
				if mask&(1<<b) != 0 {
					l[start+b] = absent[start+b]
				}
			}
			c10Call(rep, f, cfg, fmt.Sprintf("window@%d", start), l)
		}
	}
	// duplicates: adjacent and 21 apart, of present / absent / mismatched digests
	for _, gap := range []int{1, 21} {
		for _, base := range []c10Digest{present[3], absent[3], wrongSize(3), empty} {
			for pos := 0; pos+gap < 45; pos += 7 {
				l := make([]c10Digest, 45)
				copy(l, present[:45])
				l[pos], l[pos+gap] = base, base
				c10Call(rep, f, cfg, "duplicates", l)
			}
		}
	}
	// one hash named twice with different sizes (presence depends on hash AND size):
	// every ordered pair of {stored size, size+1, size-1} at every position, adjacent and
	// 2 / 19 / 20 / 21 apart (inside one internal batch and across two)
	smaller := func(i int) c10Digest {
		return c10Digest{d: &pb.Digest{Hash: present[i].d.Hash, SizeBytes: present[i].d.SizeBytes - 1}, missing: true, what: "t"}
	}
	for _, gap := range []int{1, 2, 19, 20, 21} {
		for pos := 0; pos+gap < 45; pos++ {
			if gap != 1 && pos%3 != 0 && !vlib.Thorough() {
				continue
			}
			forms := []c10Digest{present[pos], wrongSize(pos), smaller(pos)}
			for a := range forms {
				for b := range forms {
					if a == b {
						continue
					}
					l := make([]c10Digest, 45)
					copy(l, present[:45])
					l[pos], l[pos+gap] = forms[a], forms[b]
					c10Call(rep, f, cfg, fmt.Sprintf("same-hash-two-sizes gap=%d", gap), l)
				}
			}
		}
	}
	for _, p := range f.takePanics() {
		rep.Violate("C14 handler panic during C10", p, nil)
	}
	rep.Sample(map[string]interface{}{"lengths": "0..45", "window_patterns": 3 * (1 << k), "legend": "P present, a absent, s present with another size, E empty blob"})
}

// TestC10Backend: partitions of digests into local / backend-only / absent /
// backend-but-too-large / backend-with-another-size around the batch boundary.
func TestC10Backend(t *testing.T) {
	mode := vlib.Param("MODE", "zstd")
	rep := vlib.NewReport("C10", "E4:backend/"+mode)
	defer rep.Write()
	const maxProxy = 500
	px := vlib.NewFakeProxy()
	f := newFx(fxOpts{mode: mode, validateAC: true, proxy: px, maxProxy: maxProxy})
	defer f.close()
	mk := func(tag string, n int) (*pb.Digest, []byte) {
		d := vlib.Bytes("c10b/"+mode+"/"+tag, n, false)
		return &pb.Digest{Hash: vlib.Sha(d), SizeBytes: int64(n)}, d
	}
	stored := func(d []byte) []byte {
		if mode == "zstd" {
			return vlib.EncodeCasBlob(d, 1<<20, true)
		}
		return d
	}
	const N = 24
	classes := []string{"L", "B", "a", "X", "S"} // local, backend-only, absent, backend too large, backend other size
	var byClass [5][]c10Digest
	for i := 0; i < N; i++ {
		// local
		dg, data := mk(fmt.Sprintf("L%d", i), 100+i)
		if r := f.upload(upReq{path: "batch", hash: dg.Hash, size: dg.SizeBytes, wire: data, abortAfter: -1}); !r.ok {
			rep.BrokenHarness("upload: %s", r.status)
			return
		}
		byClass[0] = append(byClass[0], c10Digest{d: dg, what: "L"})
		// backend only
		dg, data = mk(fmt.Sprintf("B%d", i), 120+i)
		px.Set(cache.CAS, dg.Hash, stored(data), dg.SizeBytes)
		byClass[1] = append(byClass[1], c10Digest{d: dg, what: "B"})
		// absent
		dg, _ = mk(fmt.Sprintf("a%d", i), 140+i)
		byClass[2] = append(byClass[2], c10Digest{d: dg, missing: true, what: "a"})
		// backend holds it but it is larger than max_proxy_blob_size
		dg, data = mk(fmt.Sprintf("X%d", i), maxProxy+1+i)
		px.Set(cache.CAS, dg.Hash, stored(data), dg.SizeBytes)
		byClass[3] = append(byClass[3], c10Digest{d: dg, missing: true, what: "X"})
		// backend holds the hash with another size
		dg, data = mk(fmt.Sprintf("S%d", i), 160+i)
		px.Set(cache.CAS, dg.Hash, stored(data), dg.SizeBytes)
		byClass[4] = append(byClass[4], c10Digest{d: &pb.Digest{Hash: dg.Hash, SizeBytes: dg.SizeBytes + 1}, missing: true, what: "S"})
	}
	// the uploads above were written through to the backend: local ones are there too (fine)
	cfg := "mode=" + mode + " backend"
	k := 4
	if vlib.Thorough() {
		k = 5
	}
	total := 1
	for i := 0; i < k; i++ {
		total *= len(classes)
	}
	for _, start := range []int{0, 18} {
		for code := 0; code < total; code++ {
			l := make([]c10Digest, 23)
			copy(l, byClass[0][:23])
			c := code
			for b := 0; b < k; b++ {
				l[start+b] = byClass[c%len(classes)][start+b]
				c /= len(classes)
			}
			c10Call(rep, f, cfg, fmt.Sprintf("backend-partition@%d", start), l)
		}
	}
	// one hash twice with two sizes, where the right size is local-only / backend-only
	for _, cl := range []int{0, 1} {
		for _, gap := range []int{1, 20} {
			for pos := 0; pos+gap < 23; pos++ {
				right := byClass[cl][pos]
				wrong := c10Digest{d: &pb.Digest{Hash: right.d.Hash, SizeBytes: right.d.SizeBytes + 1}, missing: true, what: strings.ToLower(right.what) + "+1"}
				for _, order := range [][2]c10Digest{{right, wrong}, {wrong, right}} {
					l := make([]c10Digest, 23)
					copy(l, byClass[0][:23])
					l[pos], l[pos+gap] = order[0], order[1]
					c10Call(rep, f, cfg, fmt.Sprintf("backend-same-hash-two-sizes gap=%d", gap), l)
				}
			}
		}
	}
	// homogeneous lists of every class and length 1..23
	for ci := range classes {
		for n := 1; n <= 23; n++ {
			c10Call(rep, f, cfg, "backend-homogeneous-"+classes[ci], append([]c10Digest(nil), byClass[ci][:n]...))
		}
	}
	for _, p := range f.takePanics() {
		rep.Violate("C14 handler panic during C10", p, nil)
	}
	rep.Sample(map[string]interface{}{"legend": "L local, B backend only, a absent, X in backend but over max_proxy_blob_size, S in backend with another size", "patterns": 2 * total})
}

// TestC10Limits: presence does not depend on the upload limit. A blob that is
// larger than the configured max_blob_size can be in the cache (the directory
// was written with a higher limit and the server restarted with a lower one,
// or the blob was fetched from the backend, which only max_proxy_blob_size
// limits): FindMissingBlobs must report it present, in every position of the
// list, and an absent digest of the same size missing.
func TestC10Limits(t *testing.T) {
	mode := vlib.Param("MODE", "zstd")
	rep := vlib.NewReport("C10", "E4:limits/"+mode)
	defer rep.Write()
	sizes := []int{100, 999, 1000, 1001, 5000}
	for _, how := range []string{"restart-with-lower-limit", "fetched-from-backend"} {
		for _, limit := range []int64{1000, 1} {
			var f *fx
			var items []c10Digest
			px := vlib.NewFakeProxy()
			switch how {
			case "restart-with-lower-limit":
				f0 := newFx(fxOpts{mode: mode, validateAC: true, keepDir: true})
				for _, n := range sizes {
					d := vlib.Bytes(fmt.Sprintf("c10lim/%s/%s/%d/%d", mode, how, limit, n), n, false)
					h := vlib.Sha(d)
					if r := f0.upload(upReq{path: "bs", hash: h, size: int64(n), wire: d, abortAfter: -1}); !r.ok {
						rep.BrokenHarness("upload: %s", r.status)
						return
					}
					items = append(items, c10Digest{d: &pb.Digest{Hash: h, SizeBytes: int64(n)}, what: fmt.Sprintf("P%d", n)})
				}
				f0.settle()
				dir := f0.dir
				f0.close()
				f = newFx(fxOpts{mode: mode, validateAC: true, dir: dir, maxBlob: limit})
			default:
				f = newFx(fxOpts{mode: mode, validateAC: true, maxBlob: limit, proxy: px})
				for _, n := range sizes {
					d := vlib.Bytes(fmt.Sprintf("c10lim/%s/%s/%d/%d", mode, how, limit, n), n, false)
					h := vlib.Sha(d)
					st := d
					if mode == "zstd" {
						st = vlib.EncodeCasBlob(d, 1<<20, true)
					}
					px.Set(cache.CAS, h, st, int64(n))
					rc, _, err := f.cache.Get(context.Background(), cache.CAS, h, int64(n), 0)
					if rc == nil || err != nil {
						rep.BrokenHarness("backend fetch of %d bytes failed: %v", n, err)
						return
					}
					_ = readAllClose(rc)
					items = append(items, c10Digest{d: &pb.Digest{Hash: h, SizeBytes: int64(n)}, what: fmt.Sprintf("P%d", n)})
				}
				f.settle()
				// the backend forgets everything: presence is local from here on
				for _, it := range items {
					px.Delete(cache.CAS, it.d.Hash)
				}
			}
			cfg := fmt.Sprintf("mode=%s max_blob_size=%d blobs %s", mode, limit, how)
			var absent []c10Digest
			for _, n := range sizes {
				a := vlib.Bytes(fmt.Sprintf("c10lim/absent/%s/%s/%d/%d", mode, how, limit, n), n, false)
				absent = append(absent, c10Digest{d: &pb.Digest{Hash: vlib.Sha(a), SizeBytes: int64(n)}, missing: true, what: fmt.Sprintf("a%d", n)})
			}
			// guard: the blobs really are held locally
			for _, it := range items {
				if ok, _ := f.cache.Contains(context.Background(), cache.CAS, it.d.Hash, it.d.SizeBytes); !ok {
					rep.BrokenHarness("%s: blob of %d bytes is not held locally", cfg, it.d.SizeBytes)
					return
				}
			}
			c10Call(rep, f, cfg, fmt.Sprintf("limits %s/%d all-present", how, limit), items)
			c10Call(rep, f, cfg, fmt.Sprintf("limits %s/%d all-absent", how, limit), absent)
			for i := range items {
				c10Call(rep, f, cfg, fmt.Sprintf("limits %s/%d single", how, limit), []c10Digest{items[i]})
				c10Call(rep, f, cfg, fmt.Sprintf("limits %s/%d single", how, limit), []c10Digest{absent[i]})
				mixed := append(append([]c10Digest{}, absent[:i]...), items[i])
				mixed = append(mixed, absent[i:]...)
				c10Call(rep, f, cfg, fmt.Sprintf("limits %s/%d mixed", how, limit), mixed)
				mixed2 := append(append([]c10Digest{}, items[:i]...), absent[i])
				mixed2 = append(mixed2, items[i:]...)
				c10Call(rep, f, cfg, fmt.Sprintf("limits %s/%d mixed", how, limit), mixed2)
			}
			for _, p := range f.takePanics() {
				rep.Violate("C14 handler panic during C10 limits", p, nil)
			}
			f.close()
		}
	}
	rep.Sample(map[string]interface{}{"mode": mode, "sizes": sizes, "limits": []int{1000, 1}})
}
