package grid

// C17 (server level): with max_size_hard_limit set, an upload that does not
// fit next to the accounted size is refused with 507 / RESOURCE_EXHAUSTED on
// every write path, stores nothing and evicts nothing; reads and existence
// checks keep working; without the option nothing is refused.

import (
	"fmt"
	"net/http"
	"net/http/httptest"
	"strings"
	"testing"

	"github.com/buchgr/bazel-remote/v2/cache/disk"
	"github.com/buchgr/bazel-remote/v2/verifdrv/vlib"
)

func TestC17(t *testing.T) {
	rep := vlib.NewReport("C17", "E4:status-mapping")
	defer rep.Write()
	const blk = 4096
	for _, mode := range []string{"zstd", "uncompressed"} {
		for _, hard := range []int64{0, 5 * blk} {
			f := newFx(fxOpts{mode: mode, maxSize: 4 * blk, hardLimit: hard, validateAC: true, asset: true})
			// fill the cache with four one-block RAW-free CAS blobs (incompressible)
			var resident []c02Blob
			for i := 0; i < 4; i++ {
				d := vlib.Bytes(fmt.Sprintf("c17/%s/%d/res%d", mode, hard, i), 3000, false)
				b := c02Blob{data: d, hash: vlib.Sha(d)}
				if r := f.upload(upReq{path: "batch", hash: b.hash, size: 3000, wire: d, abortAfter: -1}); !r.ok {
					rep.BrokenHarness("cannot fill cache: %s", r.status)
				}
				resident = append(resident, b)
			}
			f.settle()
			// FetchBlob with several mirrors: a list that ends in a dead mirror, starts with one, or has two good ones
			type pathVar struct{ path, mirrors string }
			var pvs []pathVar
			for _, path := range writePaths {
				pvs = append(pvs, pathVar{path, ""})
				if strings.HasPrefix(path, "fetch") {
					pvs = append(pvs, pathVar{path, "dead-last"}, pathVar{path, "dead-first"}, pathVar{path, "two-good"})
				}
			}
			for _, pv := range pvs {
				rep.Eval()
				path := pv.path
				before := disk.VfSnapshot(f.cache)
				d := vlib.Bytes(fmt.Sprintf("c17/%s/%d/%s%s/big", mode, hard, path, pv.mirrors), 2*blk-200, false)
				wire := d
				if pathIsZstd(path) {
					wire = vlib.ZstdEncode(d)
				}
				u := upReq{path: path, hash: vlib.Sha(d), size: int64(len(d)), wire: wire, abortAfter: -1, mirrors: pv.mirrors}
				if pv.mirrors != "" {
					path = path + "[" + pv.mirrors + "]"
				}
				if strings.HasPrefix(path, "splice") {
					// the chunks are two resident blobs: the spliced result needs two more blocks
					d = append(append([]byte(nil), resident[0].data...), resident[1].data...)
					u = upReq{path: path, hash: vlib.Sha(d), size: int64(len(d)), chunks: [][]byte{resident[0].data, resident[1].data}, noChunkUp: true, abortAfter: -1}
					if hard == 0 {
						// without the option earlier cells have evicted the residents: fresh chunks, uploaded first
						c1 := vlib.Bytes(fmt.Sprintf("c17/%s/%s/chunk1", mode, path), 3000, false)
						c2 := vlib.Bytes(fmt.Sprintf("c17/%s/%s/chunk2", mode, path), 3000, false)
						d = append(append([]byte(nil), c1...), c2...)
						u = upReq{path: path, hash: vlib.Sha(d), size: int64(len(d)), chunks: [][]byte{c1, c2}, abortAfter: -1}
					}
				}
				res := f.upload(u)
				f.settle()
				after := disk.VfSnapshot(f.cache)
				id := fmt.Sprintf("mode=%s hard_limit=%d path=%s: two-block upload into a full four-block cache -> %s", mode, hard, path, res.status)
				key := fmt.Sprintf("C17 path=%s hard=%v", path, hard > 0)
				if hard == 0 {
					if !res.ok {
						rep.Violate(key+" refused without the option", id, nil)
					} else {
						rep.Nontrivial(id)
					}
					continue
				}
				// accounted (4 blocks) + backlog (0) + new (2 blocks) > limit (5 blocks)
				want := map[string]bool{"507": true, "ResourceExhausted": true}
				if res.ok {
					rep.Violate(key+" overload admitted", id, nil)
					continue
				}
				if !want[res.status] {
					rep.Violate(key+" refused with a non-retryable status", id+" (expected 507 Insufficient Storage / RESOURCE_EXHAUSTED)", nil)
				}
				if len(after.Entries) != len(before.Entries) || after.CurrentSize != before.CurrentSize {
					rep.Violate(key+" refused upload changed the cache", fmt.Sprintf("%s: entries %d -> %d, accounted %d -> %d", id, len(before.Entries), len(after.Entries), before.CurrentSize, after.CurrentSize), nil)
				}
				// reads and existence checks are served in the refused state
				for _, b := range resident {
					fm, head, err := f.present(b.hash, 3000)
					rd := f.read("http", b.hash, 3000, 0, 0)
					if err != nil || !fm || !head || !rd.ok {
						rep.Violate(key+" reads not served while overloaded", fmt.Sprintf("%s: resident blob: FindMissing present=%v HEAD=%v GET=%s err=%v", id, fm, head, rd.status, err), nil)
						break
					}
				}
				rep.Nontrivial(id)
				rep.Outcome(path + " -> " + res.status)
			}
			// a one-block upload fits under the limit: admitted
			if hard > 0 {
				d := vlib.Bytes(fmt.Sprintf("c17/%s/small", mode), 3000, false)
				rec := f.httpDo(func() *http.Request {
					r := httptest.NewRequest(http.MethodPut, "/cas/"+vlib.Sha(d), strings.NewReader(string(d)))
					return r
				}())
				rep.Eval()
				if rec.Code != 200 {
					rep.Violate("C17 upload within the limit refused", fmt.Sprintf("mode=%s: accounted 4 blocks + 1 block == limit 5 blocks, answered %d", mode, rec.Code), nil)
				}
			}
			for _, p := range f.invariants() {
				rep.Violate("C17 cache inconsistent "+genericKey(p), p, nil)
			}
			f.close()
		}
	}
	rep.Sample("full four-block cache, hard limit five blocks: every write path with a two-block blob")
}
