package grid

import (
	"bytes"
	"context"
	"encoding/base64"
	"encoding/hex"
	"errors"
	"fmt"
	"io"
	"net"
	"net/http"
	"net/http/httptest"
	"strconv"
	"strings"
	"sync"

	"google.golang.org/genproto/googleapis/bytestream"
	"google.golang.org/grpc/codes"
	"google.golang.org/grpc/status"

	asset "github.com/buchgr/bazel-remote/v2/genproto/build/bazel/remote/asset/v1"
	pb "github.com/buchgr/bazel-remote/v2/genproto/build/bazel/remote/execution/v2"
	"github.com/buchgr/bazel-remote/v2/verifdrv/vlib"
)

// ---------------------------------------------------------------- uploads

var writePaths = []string{"http", "http_zstd", "batch", "batch_zstd", "bs", "bs_zstd",
	"splice", "splice_nodigest", "ac_file", "ac_file_second", "ac_stdout", "ac_stderr", "fetch", "fetch_nosri"}

func pathIsZstd(p string) bool { return strings.HasSuffix(p, "_zstd") }

type upReq struct {
	path       string
	hash       string // declared digest
	size       int64
	wire       []byte // bytes on the wire (payload, or its zstd encoding, possibly damaged)
	compressor string // "" natural for the path, "unsupported"
	abortAfter int    // <0: no abort; otherwise abort after this many bytes (http) / messages (bytestream)
	noSizeHdr  bool   // http identity: do not send X-Digest-SizeBytes
	chunks     [][]byte
	msgSize    int
	omitDigest bool // ac_*: leave the digest field nil
	hasSkip    bool // splice: do not upload chunk skipChunk beforehand
	noChunkUp  bool // splice: the chunks are resident already, upload none
	skipChunk  int
	mirrors    string // fetch: "" one URI; "dead-last" [good, 404]; "dead-first" [404, good]; "two-good" [good, good]
}

type upRes struct {
	ok     bool
	status string
	digest *pb.Digest // digest reported by the server (splice, fetch)
	acKey  string     // ac_*: the action key the ActionResult was uploaded under
}

type errAfterReader struct {
	r io.Reader
	n int
}

func (e *errAfterReader) Read(p []byte) (int, error) {
	if e.n <= 0 {
		return 0, io.ErrUnexpectedEOF
	}
	if len(p) > e.n {
		p = p[:e.n]
	}
	n, err := e.r.Read(p)
	e.n -= n
	if err == io.EOF {
		err = nil
	}
	return n, err
}

var uuidCtr int

func nextUUID() string {
	uuidCtr++
	return fmt.Sprintf("00000000-0000-4000-8000-%012d", uuidCtr)
}

func grpcStatus(err error) string {
	if err == nil {
		return "OK"
	}
	return status.Code(err).String()
}

// origin is a tiny HTTP origin for FetchBlob.
type originSrv struct {
	srv  *httptest.Server
	mu   sync.Mutex
	obj  map[string]originObj
	open map[net.Conn]bool // connections the origin currently holds open
}

type originObj struct {
	body     []byte
	declLen  int // Content-Length to announce (-1: chunked, no length)
	statusOK bool
	status   int // 0: 200
}

// openConns: connections not yet closed, after the client side dropped its idle ones.
func (o *originSrv) openConns() int {
	http.DefaultClient.CloseIdleConnections()
	o.mu.Lock()
	defer o.mu.Unlock()
	return len(o.open)
}

func newOrigin() *originSrv {
	o := &originSrv{obj: map[string]originObj{}, open: map[net.Conn]bool{}}
	o.srv = httptest.NewUnstartedServer(http.HandlerFunc(func(w http.ResponseWriter, r *http.Request) {
		o.mu.Lock()
		ob, ok := o.obj[r.URL.Path]
		o.mu.Unlock()
		if !ok {
			http.NotFound(w, r)
			return
		}
		code := 200
		if ob.status != 0 {
			code = ob.status
		}
		if ob.declLen >= 0 {
			w.Header().Set("Content-Length", strconv.Itoa(ob.declLen))
			w.WriteHeader(code)
			_, _ = w.Write(ob.body)
			if ob.declLen > len(ob.body) {
				// announce more than we deliver: drop the connection
				if hj, ok := w.(http.Hijacker); ok {
					if c, _, err := hj.Hijack(); err == nil {
						_ = c.Close()
					}
				}
			}
			return
		}
		w.WriteHeader(code)
		if fl, ok := w.(http.Flusher); ok {
			fl.Flush() // forces chunked encoding: no Content-Length
		}
		_, _ = w.Write(ob.body)
	}))
	o.srv.Config.ConnState = func(c net.Conn, st http.ConnState) {
		o.mu.Lock()
		switch st {
		case http.StateNew:
			o.open[c] = true
		case http.StateClosed, http.StateHijacked:
			delete(o.open, c)
		}
		o.mu.Unlock()
	}
	o.srv.Start()
	return o
}

func (o *originSrv) put(path string, ob originObj) string {
	o.mu.Lock()
	o.obj[path] = ob
	o.mu.Unlock()
	return o.srv.URL + path
}

var theOrigin *originSrv

func origin() *originSrv {
	if theOrigin == nil {
		theOrigin = newOrigin()
	}
	return theOrigin
}

func (f *fx) upload(u upReq) upRes {
	ctx, cancel := ctxT()
	defer cancel()
	switch u.path {
	case "http", "http_zstd":
		var body io.Reader = bytes.NewReader(u.wire)
		if u.abortAfter >= 0 {
			body = &errAfterReader{r: bytes.NewReader(u.wire), n: u.abortAfter}
		}
		req := httptest.NewRequest(http.MethodPut, "/cas/"+u.hash, body)
		req.ContentLength = int64(len(u.wire))
		if u.path == "http_zstd" {
			req.Header.Set("Content-Encoding", "zstd")
		}
		if u.compressor == "unsupported" {
			req.Header.Set("Content-Encoding", "gzip")
		}
		if !u.noSizeHdr {
			req.Header.Set("X-Digest-SizeBytes", strconv.FormatInt(u.size, 10))
		}
		rec := f.httpDo(req)
		return upRes{ok: rec.Code == 200, status: strconv.Itoa(rec.Code)}
	case "batch", "batch_zstd":
		comp := pb.Compressor_IDENTITY
		if u.path == "batch_zstd" {
			comp = pb.Compressor_ZSTD
		}
		if u.compressor == "unsupported" {
			comp = pb.Compressor_DEFLATE
		}
		resp, err := f.cas.BatchUpdateBlobs(ctx, &pb.BatchUpdateBlobsRequest{Requests: []*pb.BatchUpdateBlobsRequest_Request{
			{Digest: &pb.Digest{Hash: u.hash, SizeBytes: u.size}, Data: u.wire, Compressor: comp}}})
		if err != nil {
			return upRes{status: grpcStatus(err)}
		}
		if len(resp.Responses) != 1 {
			return upRes{status: fmt.Sprintf("%d responses", len(resp.Responses))}
		}
		c := codes.Code(resp.Responses[0].GetStatus().GetCode())
		return upRes{ok: c == codes.OK, status: c.String()}
	case "bs", "bs_zstd":
		name := fmt.Sprintf("uploads/%s/blobs/%s/%d", nextUUID(), u.hash, u.size)
		if u.path == "bs_zstd" {
			name = fmt.Sprintf("uploads/%s/compressed-blobs/zstd/%s/%d", nextUUID(), u.hash, u.size)
		}
		if u.compressor == "unsupported" {
			name = fmt.Sprintf("uploads/%s/compressed-blobs/gzip/%s/%d", nextUUID(), u.hash, u.size)
		}
		sctx, scancel := context.WithCancel(ctx)
		defer scancel()
		st, err := f.bs.Write(sctx)
		if err != nil {
			return upRes{status: grpcStatus(err)}
		}
		ms := u.msgSize
		if ms <= 0 {
			ms = 1 << 20
		}
		var msgs [][]byte
		for off := 0; off < len(u.wire); off += ms {
			end := off + ms
			if end > len(u.wire) {
				end = len(u.wire)
			}
			msgs = append(msgs, u.wire[off:end])
		}
		if len(msgs) == 0 {
			msgs = [][]byte{{}}
		}
		var off int64
		sent := 0
		var sendErr error
		for i, m := range msgs {
			if u.abortAfter >= 0 && sent >= u.abortAfter {
				scancel()
				_, err := st.CloseAndRecv()
				return upRes{status: "aborted:" + grpcStatus(err)}
			}
			wr := &bytestream.WriteRequest{Data: m, WriteOffset: off, FinishWrite: i == len(msgs)-1}
			if i == 0 {
				wr.ResourceName = name
			}
			if sendErr = st.Send(wr); sendErr != nil {
				break
			}
			sent++
			off += int64(len(m))
		}
		resp, err := st.CloseAndRecv()
		if err != nil {
			return upRes{status: grpcStatus(err)}
		}
		_ = resp
		return upRes{ok: true, status: "OK"}
	case "splice", "splice_nodigest":
		var cds []*pb.Digest
		var reqs []*pb.BatchUpdateBlobsRequest_Request
		for _, c := range u.chunks {
			d := &pb.Digest{Hash: vlib.Sha(c), SizeBytes: int64(len(c))}
			cds = append(cds, d)
			reqs = append(reqs, &pb.BatchUpdateBlobsRequest_Request{Digest: d, Data: c})
		}
		for i, r := range reqs {
			if u.noChunkUp || (u.hasSkip && i == u.skipChunk) {
				continue
			}
			resp, err := f.cas.BatchUpdateBlobs(ctx, &pb.BatchUpdateBlobsRequest{Requests: []*pb.BatchUpdateBlobsRequest_Request{r}})
			if err != nil || resp.Responses[0].GetStatus().GetCode() != 0 {
				return upRes{status: "chunk upload failed: " + grpcStatus(err)}
			}
		}
		req := &pb.SpliceBlobRequest{ChunkDigests: cds}
		if u.path == "splice" {
			req.BlobDigest = &pb.Digest{Hash: u.hash, SizeBytes: u.size}
		}
		resp, err := f.cas.SpliceBlob(ctx, req)
		if err != nil {
			return upRes{status: grpcStatus(err)}
		}
		return upRes{ok: true, status: "OK", digest: resp.BlobDigest}
	case "ac_file", "ac_file_second", "ac_stdout", "ac_stderr":
		var d *pb.Digest
		if !u.omitDigest {
			d = &pb.Digest{Hash: u.hash, SizeBytes: u.size}
		}
		ar := &pb.ActionResult{ExitCode: 1}
		switch u.path {
		case "ac_file":
			ar.OutputFiles = []*pb.OutputFile{{Path: "out/f", Digest: d, Contents: u.wire}}
			if d == nil {
				// a nil digest on an output file does not validate; use the true one
				ar.OutputFiles[0].Digest = &pb.Digest{Hash: vlib.Sha(u.wire), SizeBytes: int64(len(u.wire))}
			}
		case "ac_file_second":
			// the inlined file is listed AFTER a file that is given by digest only (the empty blob, always present)
			ar.OutputFiles = []*pb.OutputFile{{Path: "out/e", Digest: &pb.Digest{Hash: vlib.Sha(nil), SizeBytes: 0}}, {Path: "out/f", Digest: d, Contents: u.wire}}
			if d == nil {
				ar.OutputFiles[1].Digest = &pb.Digest{Hash: vlib.Sha(u.wire), SizeBytes: int64(len(u.wire))}
			}
		case "ac_stdout":
			ar.StdoutRaw, ar.StdoutDigest = u.wire, d
		case "ac_stderr":
			ar.StderrRaw, ar.StderrDigest = u.wire, d
		}
		key := vlib.Sha([]byte("action for " + u.hash + u.path + strconv.Itoa(uuidCtr)))
		uuidCtr++
		_, err := f.ac.UpdateActionResult(ctx, &pb.UpdateActionResultRequest{
			ActionDigest: &pb.Digest{Hash: key, SizeBytes: 42}, ActionResult: ar})
		return upRes{ok: err == nil, status: grpcStatus(err), acKey: key}
	case "fetch", "fetch_nosri":
		ob := originObj{body: u.wire, declLen: len(u.wire)}
		if u.abortAfter >= 0 {
			ob.body = u.wire[:u.abortAfter]
		}
		if u.noSizeHdr {
			ob.declLen = -1
		}
		url := origin().put("/blob/"+nextUUID(), ob)
		req := &asset.FetchBlobRequest{Uris: []string{url}}
		dead := origin().srv.URL + "/no-such-object/" + nextUUID()
		switch u.mirrors {
		case "dead-last":
			req.Uris = []string{url, dead}
		case "dead-first":
			req.Uris = []string{dead, url}
		case "two-good":
			req.Uris = []string{url, origin().put("/blob/"+nextUUID(), ob)}
		}
		if u.path == "fetch" {
			raw, err := hex.DecodeString(u.hash)
			if err != nil {
				raw = []byte(u.hash)
			}
			req.Qualifiers = []*asset.Qualifier{{Name: "checksum.sri", Value: "sha256-" + base64.StdEncoding.EncodeToString(raw)}}
		}
		resp, err := f.fetch.FetchBlob(ctx, req)
		if err != nil {
			return upRes{status: grpcStatus(err)}
		}
		c := codes.Code(resp.GetStatus().GetCode())
		return upRes{ok: c == codes.OK, status: c.String(), digest: resp.BlobDigest}
	}
	panic("unknown write path " + u.path)
}

// present reports whether (hash,size) is reported present by FindMissingBlobs
// and HEAD.
func (f *fx) present(hash string, size int64) (fm bool, head bool, err error) {
	ctx, cancel := ctxT()
	defer cancel()
	resp, e := f.cas.FindMissingBlobs(ctx, &pb.FindMissingBlobsRequest{BlobDigests: []*pb.Digest{{Hash: hash, SizeBytes: size}}})
	if e != nil {
		return false, false, e
	}
	fm = len(resp.MissingBlobDigests) == 0
	rec := f.httpDo(httptest.NewRequest(http.MethodHead, "/cas/"+hash, nil))
	head = rec.Code == 200
	return fm, head, nil
}

// ------------------------------------------------------------------ reads

var readPaths = []string{"http", "http_zstd", "batch", "batch_zstd", "bs", "bs_zstd"}

type rdRes struct {
	status   string
	ok       bool
	data     []byte // decoded logical bytes delivered (also on error: what arrived)
	raw      []byte
	size     int64 // size reported (-1: none reported)
	notFound bool
	err      error
}

var errDecode = errors.New("zstd response does not decode")

// read fetches bytes [off, n) of (hash,size) through path; limit only for bs.
func (f *fx) read(path, hash string, size, off, limit int64) rdRes {
	ctx, cancel := ctxT()
	defer cancel()
	switch path {
	case "http", "http_zstd":
		req := httptest.NewRequest(http.MethodGet, "/cas/"+hash, nil)
		if path == "http_zstd" {
			req.Header.Set("Accept-Encoding", "zstd")
		}
		rec := f.httpDo(req)
		r := rdRes{status: strconv.Itoa(rec.Code), ok: rec.Code == 200, notFound: rec.Code == 404, size: -1}
		if !r.ok {
			return r
		}
		r.raw = rec.Body.Bytes()
		if cl := rec.Header().Get("Content-Length"); cl != "" {
			r.size, _ = strconv.ParseInt(cl, 10, 64)
		}
		if rec.Header().Get("Content-Encoding") == "zstd" {
			d, err := vlib.ZstdDecodeBoth(r.raw)
			if err != nil {
				r.err = errDecode
				r.ok = false
			}
			r.data = d
		} else {
			if path == "http_zstd" {
				r.err = errors.New("zstd requested, identity delivered")
			}
			r.data = r.raw
		}
		return r
	case "batch", "batch_zstd":
		req := &pb.BatchReadBlobsRequest{Digests: []*pb.Digest{{Hash: hash, SizeBytes: size}}}
		if path == "batch_zstd" {
			req.AcceptableCompressors = []pb.Compressor_Value{pb.Compressor_ZSTD}
		}
		resp, err := f.cas.BatchReadBlobs(ctx, req)
		if err != nil {
			return rdRes{status: grpcStatus(err), err: err, size: -1}
		}
		rr := resp.Responses[0]
		c := codes.Code(rr.GetStatus().GetCode())
		r := rdRes{status: c.String(), ok: c == codes.OK, notFound: c == codes.NotFound, size: -1}
		if !r.ok {
			return r
		}
		if rr.Digest != nil {
			r.size = rr.Digest.SizeBytes
		}
		r.raw = rr.Data
		if rr.Compressor == pb.Compressor_ZSTD {
			d, err := vlib.ZstdDecodeBoth(rr.Data)
			if err != nil {
				r.err = errDecode
				r.ok = false
			}
			r.data = d
		} else {
			r.data = rr.Data
		}
		return r
	case "bs", "bs_zstd":
		name := fmt.Sprintf("blobs/%s/%d", hash, size)
		if path == "bs_zstd" {
			name = fmt.Sprintf("compressed-blobs/zstd/%s/%d", hash, size)
		}
		st, err := f.bs.Read(ctx, &bytestream.ReadRequest{ResourceName: name, ReadOffset: off, ReadLimit: limit})
		if err != nil {
			return rdRes{status: grpcStatus(err), err: err, size: -1}
		}
		r := rdRes{size: -1}
		for {
			m, err := st.Recv()
			if err == io.EOF {
				r.ok = true
				r.status = "OK"
				break
			}
			if err != nil {
				r.status = grpcStatus(err)
				r.notFound = status.Code(err) == codes.NotFound
				r.err = err
				break
			}
			r.raw = append(r.raw, m.Data...)
		}
		if path == "bs_zstd" {
			if r.ok {
				d, err := vlib.ZstdDecodeBoth(r.raw)
				if err != nil {
					r.err = errDecode
					r.ok = false
				}
				r.data = d
			}
		} else {
			r.data = r.raw
		}
		return r
	}
	panic("unknown read path " + path)
}
