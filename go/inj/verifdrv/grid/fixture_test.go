package grid

import (
	"context"
	"fmt"
	"io"
	"log"
	"net"
	"net/http"
	"net/http/httptest"
	"os"
	"path/filepath"
	"runtime"
	"strings"
	"sync"
	"sync/atomic"
	"time"

	"google.golang.org/genproto/googleapis/bytestream"
	"google.golang.org/grpc"
	"google.golang.org/grpc/credentials/insecure"
	"google.golang.org/grpc/test/bufconn"

	"github.com/buchgr/bazel-remote/v2/cache"
	"github.com/buchgr/bazel-remote/v2/cache/disk"
	asset "github.com/buchgr/bazel-remote/v2/genproto/build/bazel/remote/asset/v1"
	pb "github.com/buchgr/bazel-remote/v2/genproto/build/bazel/remote/execution/v2"
	"github.com/buchgr/bazel-remote/v2/server"
	"github.com/buchgr/bazel-remote/v2/verifdrv/vlib"
)

func init() { log.SetOutput(io.Discard) }

type fxOpts struct {
	mode        string // zstd | uncompressed
	impl        string // go | cgo
	maxSize     int64
	maxBlob     int64 // 0: unlimited
	maxProxy    int64
	hardLimit   int64
	proxy       cache.Proxy
	validateAC  bool
	mangle      bool
	asset       bool
	dir         string // reuse this directory (restart); "" = fresh
	keepDir     bool
	depsCheck   bool
	noDepsCheck bool
}

type fx struct {
	o      fxOpts
	dir    string
	cache  disk.Cache
	hc     server.HTTPCache
	mux    *http.ServeMux
	srv    *grpc.Server
	lis    *bufconn.Listener
	conn   *grpc.ClientConn
	cas    pb.ContentAddressableStorageClient
	ac     pb.ActionCacheClient
	caps   pb.CapabilitiesClient
	bs     bytestream.ByteStreamClient
	fetch  asset.FetchClient
	mu     sync.Mutex
	panics []string
	active atomic.Int64 // gRPC handlers currently running
}

var fxCounter int

func newFx(o fxOpts) *fx {
	if o.mode == "" {
		o.mode = "zstd"
	}
	if o.impl == "" {
		o.impl = "go"
	}
	if o.maxSize == 0 {
		o.maxSize = 256 << 20
	}
	f := &fx{o: o}
	f.dir = o.dir
	if f.dir == "" {
		fxCounter++
		f.dir = vlib.Scratch(fmt.Sprintf("fx%d", fxCounter))
	}
	opts := []disk.Option{disk.WithStorageMode(o.mode), disk.WithZstdImplementation(o.impl), disk.WithAccessLogger(vlib.SilentLogger())}
	maxBlob := o.maxBlob
	if maxBlob > 0 {
		opts = append(opts, disk.WithMaxBlobSize(maxBlob))
	} else {
		maxBlob = 1 << 40
	}
	if o.maxProxy > 0 {
		opts = append(opts, disk.WithProxyMaxBlobSize(o.maxProxy))
	}
	if o.hardLimit > 0 {
		opts = append(opts, disk.WithMaxSizeHardLimit(o.hardLimit))
	}
	if o.proxy != nil {
		opts = append(opts, disk.WithProxyBackend(o.proxy))
	}
	c, err := disk.New(f.dir, o.maxSize, opts...)
	if err != nil {
		panic(fmt.Sprintf("disk.New(%s): %v", f.dir, err))
	}
	f.cache = c
	sl := vlib.SilentLogger()
	f.hc = server.NewHTTPCache(c, sl, sl, o.validateAC, o.mangle, false, false, "", "", maxBlob)
	f.mux = http.NewServeMux()
	f.mux.HandleFunc("/status", f.hc.StatusPageHandler)
	f.mux.HandleFunc("/", f.hc.CacheHandler)

	f.lis = bufconn.Listen(4 << 20)
	f.srv = grpc.NewServer(
		grpc.ChainUnaryInterceptor(func(ctx context.Context, req interface{}, info *grpc.UnaryServerInfo, h grpc.UnaryHandler) (resp interface{}, err error) {
			f.active.Add(1)
			defer f.active.Add(-1)
			defer f.recoverPanic(info.FullMethod, &err)
			return h(ctx, req)
		}),
		grpc.ChainStreamInterceptor(func(srv interface{}, ss grpc.ServerStream, info *grpc.StreamServerInfo, h grpc.StreamHandler) (err error) {
			f.active.Add(1)
			defer f.active.Add(-1)
			defer f.recoverPanic(info.FullMethod, &err)
			return h(srv, ss)
		}),
		grpc.MaxRecvMsgSize(64<<20),
	)
	go func() {
		_ = server.ServeGRPC(f.lis, f.srv, !o.noDepsCheck, o.mangle, o.asset, maxBlob, c, sl, sl)
	}()
	conn, err := grpc.NewClient("passthrough://bufnet",
		grpc.WithTransportCredentials(insecure.NewCredentials()),
		grpc.WithContextDialer(func(context.Context, string) (net.Conn, error) { return f.lis.Dial() }),
		grpc.WithDefaultCallOptions(grpc.MaxCallRecvMsgSize(64<<20), grpc.MaxCallSendMsgSize(64<<20)))
	if err != nil {
		panic(err)
	}
	f.conn = conn
	f.cas = pb.NewContentAddressableStorageClient(conn)
	f.ac = pb.NewActionCacheClient(conn)
	f.caps = pb.NewCapabilitiesClient(conn)
	f.bs = bytestream.NewByteStreamClient(conn)
	f.fetch = asset.NewFetchClient(conn)
	return f
}

func (f *fx) recoverPanic(method string, err *error) {
	if r := recover(); r != nil {
		buf := make([]byte, 8192)
		n := runtime.Stack(buf, false)
		f.mu.Lock()
		f.panics = append(f.panics, fmt.Sprintf("%s: %v\n%s", method, r, buf[:n]))
		f.mu.Unlock()
		*err = fmt.Errorf("handler panicked: %v", r)
	}
}

// takePanics returns and clears the handler panics seen so far.
func (f *fx) takePanics() []string {
	f.mu.Lock()
	defer f.mu.Unlock()
	p := f.panics
	f.panics = nil
	return p
}

// httpDo runs one request through the real HTTP handler.
func (f *fx) httpDo(req *http.Request) (rec *httptest.ResponseRecorder) {
	rec = httptest.NewRecorder()
	defer func() {
		if r := recover(); r != nil {
			buf := make([]byte, 8192)
			n := runtime.Stack(buf, false)
			f.mu.Lock()
			f.panics = append(f.panics, fmt.Sprintf("HTTP %s %s: %v\n%s", req.Method, req.URL.Path, r, buf[:n]))
			f.mu.Unlock()
			rec.Code = 599
		}
	}()
	f.mux.ServeHTTP(rec, req)
	return rec
}

func (f *fx) close() {
	_ = f.conn.Close()
	f.srv.Stop()
	disk.VfDrain(f.cache)
	disk.VfShutdown(f.cache)
	if !f.o.keepDir {
		_ = os.RemoveAll(f.dir)
	}
}

// settle waits (by state, not by time) until no request holds a
// reservation any more and the remover has drained: handlers may return
// while their storage goroutine is still cleaning up.
func (f *fx) settle() bool {
	deadline := time.Now().Add(20 * time.Second)
	stable := 0
	for time.Now().Before(deadline) {
		_, reserved, _, _ := f.cache.Stats()
		// an aborted RPC returns to the client before its handler has run
		// to the end: wait until no handler is active, and require the
		// quiet state to persist over a few polls
		if f.active.Load() == 0 && reserved == 0 && disk.VfDrain(f.cache) {
			stable++
			if stable >= 4 {
				return true
			}
			time.Sleep(2 * time.Millisecond)
			continue
		}
		stable = 0
		time.Sleep(time.Millisecond)
	}
	return false
}

// invariants waits for quiescence and returns C03/C04 problems.
func (f *fx) invariants() []string {
	var out []string
	f.settle()
	if !disk.VfDrain(f.cache) {
		out = append(out, "deletion backlog did not drain")
	}
	st := disk.VfSnapshot(f.cache)
	for _, p := range disk.VfAccounting(st, 0) {
		out = append(out, "C03 "+p)
	}
	for _, p := range disk.VfDirectory(f.cache, st) {
		out = append(out, "C04 "+p)
	}
	return out
}

// filesFor lists cache files whose name mentions hash.
func (f *fx) filesFor(hash string) []string {
	var out []string
	for _, ks := range []string{"cas.v2", "ac.v2", "raw.v2"} {
		m, _ := filepath.Glob(filepath.Join(f.dir, ks, hash[:2], hash+"*"))
		out = append(out, m...)
	}
	return out
}

func ctxT() (context.Context, context.CancelFunc) {
	return context.WithTimeout(context.Background(), 60*time.Second)
}

func short(h string) string {
	if len(h) > 8 {
		return h[:8]
	}
	return h
}

func hasPrefixAny(s string, ps ...string) bool {
	for _, p := range ps {
		if strings.HasPrefix(s, p) {
			return true
		}
	}
	return false
}
