package grid

// C11: an action-cache upload is accepted only if it is an ActionResult with
// well-formed paths and digests; a rejected upload stores nothing; a later hit
// returns the uploaded message modulo the documented server-side changes;
// JSON and protobuf views agree; the latest accepted upload wins.

import (
	"bytes"
	"fmt"
	"net/http"
	"net/http/httptest"
	"strings"
	"testing"

	"google.golang.org/grpc/codes"
	"google.golang.org/grpc/status"
	"google.golang.org/protobuf/encoding/protojson"
	"google.golang.org/protobuf/proto"
	"google.golang.org/protobuf/types/known/anypb"
	"google.golang.org/protobuf/types/known/durationpb"
	"google.golang.org/protobuf/types/known/timestamppb"

	pb "github.com/buchgr/bazel-remote/v2/genproto/build/bazel/remote/execution/v2"
	"github.com/buchgr/bazel-remote/v2/verifdrv/vlib"
)

// c11Blobs collects the blobs the most recently built base message refers to.
var c11Blobs [][]byte

func c11Base(tag string) *pb.ActionResult {
	c11Blobs = nil
	d := func(s string) *pb.Digest {
		b := []byte(tag + s)
		c11Blobs = append(c11Blobs, b)
		return &pb.Digest{Hash: vlib.Sha(b), SizeBytes: int64(len(b))}
	}
	tree := func(s string) *pb.Digest {
		b, _ := proto.Marshal(&pb.Tree{Root: &pb.Directory{Symlinks: []*pb.SymlinkNode{{Name: tag + s, Target: "t"}}}})
		c11Blobs = append(c11Blobs, b)
		return &pb.Digest{Hash: vlib.Sha(b), SizeBytes: int64(len(b))}
	}
	return &pb.ActionResult{
		OutputFiles: []*pb.OutputFile{
			{Path: "out/a.o", Digest: d("a"), IsExecutable: true},
			{Path: "out/b.o", Digest: d("b")},
		},
		OutputDirectories:       []*pb.OutputDirectory{{Path: "out/dir", TreeDigest: tree("tree")}, {Path: "", TreeDigest: tree("tree2")}},
		OutputFileSymlinks:      []*pb.OutputSymlink{{Path: "lnk/f", Target: "../a.o"}},
		OutputSymlinks:          []*pb.OutputSymlink{{Path: "lnk/s", Target: "t"}},
		OutputDirectorySymlinks: []*pb.OutputSymlink{{Path: "lnk/d", Target: "/abs/target/is/fine"}},
		StdoutDigest:            d("stdout"),
		StderrDigest:            d("stderr"),
		ExitCode:                3,
		ExecutionMetadata:       &pb.ExecutedActionMetadata{Worker: "worker-7"},
	}
}

type c11Variant struct {
	name  string
	valid bool
	apply func(ar *pb.ActionResult)
}

func c11Variants() []c11Variant {
	vs := []c11Variant{
		{"valid-full", true, func(*pb.ActionResult) {}},
		{"valid-minimal", true, func(ar *pb.ActionResult) { *ar = pb.ActionResult{ExitCode: 1} }},
		{"valid-no-worker", true, func(ar *pb.ActionResult) { ar.ExecutionMetadata = nil }},
		{"valid-empty-worker", true, func(ar *pb.ActionResult) { ar.ExecutionMetadata = &pb.ExecutedActionMetadata{} }},
		{"valid-empty-blob-digests", true, func(ar *pb.ActionResult) {
			ar.StdoutDigest = &pb.Digest{Hash: emptySha}
			ar.OutputFiles[0].Digest = &pb.Digest{Hash: emptySha}
		}},
	}
	// execution metadata: every subset of {worker, two timestamps, virtual
	// duration, auxiliary metadata}; everything the client sent must come back
	for m := 0; m < 32; m++ {
		m := m
		vs = append(vs, c11Variant{fmt.Sprintf("valid-metadata-subset-%05b", m), true, func(ar *pb.ActionResult) {
			md := &pb.ExecutedActionMetadata{}
			if m&1 != 0 {
				md.Worker = "worker-9"
			}
			if m&2 != 0 {
				md.QueuedTimestamp = &timestamppb.Timestamp{Seconds: 1700000000, Nanos: 1}
			}
			if m&4 != 0 {
				md.ExecutionCompletedTimestamp = &timestamppb.Timestamp{Seconds: 1700000100, Nanos: 999999999}
			}
			if m&8 != 0 {
				md.VirtualExecutionDuration = &durationpb.Duration{Seconds: 12, Nanos: 500}
			}
			if m&16 != 0 {
				md.AuxiliaryMetadata = []*anypb.Any{{TypeUrl: "type.googleapis.com/google.protobuf.Duration", Value: []byte{0x08, 0x05}}}
			}
			ar.ExecutionMetadata = md
		}})
	}
	// each optional part of the full message dropped on its own
	for di, drop := range []func(ar *pb.ActionResult){
		func(ar *pb.ActionResult) { ar.OutputFiles = nil },
		func(ar *pb.ActionResult) { ar.OutputDirectories = nil },
		func(ar *pb.ActionResult) { ar.OutputFileSymlinks = nil },
		func(ar *pb.ActionResult) { ar.OutputSymlinks = nil },
		func(ar *pb.ActionResult) { ar.OutputDirectorySymlinks = nil },
		func(ar *pb.ActionResult) { ar.StdoutDigest = nil },
		func(ar *pb.ActionResult) { ar.StderrDigest = nil },
		func(ar *pb.ActionResult) { ar.ExitCode = 0 },
		func(ar *pb.ActionResult) {
			ar.OutputFiles[0].IsExecutable = false
			ar.OutputFiles[1].IsExecutable = true
		},
		func(ar *pb.ActionResult) {
			ar.OutputFiles[1].NodeProperties = &pb.NodeProperties{Properties: []*pb.NodeProperty{{Name: "n", Value: "v"}}}
		},
	} {
		vs = append(vs, c11Variant{fmt.Sprintf("valid-part-dropped-%d", di), true, drop})
	}
	badDigests := []struct {
		n string
		f func(d *pb.Digest)
	}{
		{"negative-size", func(d *pb.Digest) { d.SizeBytes = -1 }},
		{"hash-short", func(d *pb.Digest) { d.Hash = d.Hash[:63] }},
		{"hash-upper", func(d *pb.Digest) { d.Hash = strings.ToUpper(d.Hash) }},
		{"hash-non-hex", func(d *pb.Digest) { d.Hash = "zz" + d.Hash[2:] }},
		{"hash-empty", func(d *pb.Digest) { d.Hash = "" }},
	}
	for i := 0; i < 2; i++ {
		i := i
		vs = append(vs,
			c11Variant{fmt.Sprintf("output_files[%d].path-empty", i), false, func(ar *pb.ActionResult) { ar.OutputFiles[i].Path = "" }},
			c11Variant{fmt.Sprintf("output_files[%d].path-absolute", i), false, func(ar *pb.ActionResult) { ar.OutputFiles[i].Path = "/etc/passwd" }},
			c11Variant{fmt.Sprintf("output_files[%d].digest-nil", i), false, func(ar *pb.ActionResult) { ar.OutputFiles[i].Digest = nil }},
			c11Variant{fmt.Sprintf("output_files[%d].empty-element", i), false, func(ar *pb.ActionResult) { ar.OutputFiles[i] = &pb.OutputFile{} }},
		)
		for _, b := range badDigests {
			b := b
			vs = append(vs, c11Variant{fmt.Sprintf("output_files[%d].digest-%s", i, b.n), false, func(ar *pb.ActionResult) { b.f(ar.OutputFiles[i].Digest) }})
		}
	}
	vs = append(vs,
		c11Variant{"output_directories[0].path-absolute", false, func(ar *pb.ActionResult) { ar.OutputDirectories[0].Path = "/abs" }},
		c11Variant{"output_directories[0].tree-digest-nil", false, func(ar *pb.ActionResult) { ar.OutputDirectories[0].TreeDigest = nil }},
		c11Variant{"output_directories[1].empty-element", false, func(ar *pb.ActionResult) { ar.OutputDirectories[1] = &pb.OutputDirectory{} }},
	)
	for _, b := range badDigests {
		b := b
		vs = append(vs, c11Variant{"output_directories[1].tree-digest-" + b.n, false, func(ar *pb.ActionResult) { b.f(ar.OutputDirectories[1].TreeDigest) }})
		vs = append(vs, c11Variant{"stdout_digest-" + b.n, false, func(ar *pb.ActionResult) { b.f(ar.StdoutDigest) }})
		vs = append(vs, c11Variant{"stderr_digest-" + b.n, false, func(ar *pb.ActionResult) { b.f(ar.StderrDigest) }})
	}
	// stdout / stderr given inline AND by digest: the digest must be well formed all the same
	vs = append(vs,
		c11Variant{"valid-stdout_raw+matching-digest", true, func(ar *pb.ActionResult) {
			ar.StdoutRaw = []byte("inline stdout bytes")
			ar.StdoutDigest = &pb.Digest{Hash: vlib.Sha(ar.StdoutRaw), SizeBytes: int64(len(ar.StdoutRaw))}
		}},
		c11Variant{"valid-stderr_raw+matching-digest", true, func(ar *pb.ActionResult) {
			ar.StderrRaw = []byte("inline stderr bytes")
			ar.StderrDigest = &pb.Digest{Hash: vlib.Sha(ar.StderrRaw), SizeBytes: int64(len(ar.StderrRaw))}
		}})
	for _, b := range badDigests {
		b := b
		vs = append(vs, c11Variant{"stdout_raw+stdout_digest-" + b.n, false, func(ar *pb.ActionResult) {
			ar.StdoutRaw = []byte("inline stdout bytes")
			ar.StdoutDigest = &pb.Digest{Hash: vlib.Sha(ar.StdoutRaw), SizeBytes: int64(len(ar.StdoutRaw))}
			b.f(ar.StdoutDigest)
		}})
		vs = append(vs, c11Variant{"stderr_raw+stderr_digest-" + b.n, false, func(ar *pb.ActionResult) {
			ar.StderrRaw = []byte("inline stderr bytes")
			ar.StderrDigest = &pb.Digest{Hash: vlib.Sha(ar.StderrRaw), SizeBytes: int64(len(ar.StderrRaw))}
			b.f(ar.StderrDigest)
		}})
	}
	for _, fld := range []string{"output_file_symlinks", "output_symlinks", "output_directory_symlinks"} {
		fld := fld
		get := func(ar *pb.ActionResult) *pb.OutputSymlink {
			switch fld {
			case "output_file_symlinks":
				return ar.OutputFileSymlinks[0]
			case "output_symlinks":
				return ar.OutputSymlinks[0]
			}
			return ar.OutputDirectorySymlinks[0]
		}
		vs = append(vs,
			c11Variant{fld + "[0].path-empty", false, func(ar *pb.ActionResult) { get(ar).Path = "" }},
			c11Variant{fld + "[0].target-empty", false, func(ar *pb.ActionResult) { get(ar).Target = "" }},
			c11Variant{fld + "[0].path-absolute", false, func(ar *pb.ActionResult) { get(ar).Path = "/abs/link" }},
		)
	}
	return vs
}

// c11RefValid: the harness's own statement of "valid ActionResult": every
// element present; output-file paths non-empty; no absolute path; symlink
// paths and targets non-empty; every digest that is given is a non-negative
// size with a 64-digit lower-case hex hash; output files and directories must
// give their digest.
func c11RefValid(ar *pb.ActionResult) bool {
	okDigest := func(d *pb.Digest, required bool) bool {
		if d == nil {
			return !required
		}
		if d.SizeBytes < 0 || len(d.Hash) != 64 {
			return false
		}
		for _, c := range d.Hash {
			if !(c >= '0' && c <= '9' || c >= 'a' && c <= 'f') {
				return false
			}
		}
		return true
	}
	abs := func(p string) bool { return strings.HasPrefix(p, "/") }
	for _, f := range ar.OutputFiles {
		if f == nil || f.Path == "" || abs(f.Path) || !okDigest(f.Digest, true) {
			return false
		}
	}
	for _, d := range ar.OutputDirectories {
		if d == nil || abs(d.Path) || !okDigest(d.TreeDigest, true) {
			return false
		}
	}
	for _, list := range [][]*pb.OutputSymlink{ar.OutputFileSymlinks, ar.OutputSymlinks, ar.OutputDirectorySymlinks} {
		for _, l := range list {
			if l == nil || l.Path == "" || l.Target == "" || abs(l.Path) {
				return false
			}
		}
	}
	return okDigest(ar.StdoutDigest, false) && okDigest(ar.StderrDigest, false)
}

// c11Apply applies the variants in order; false if one does not apply to
// what the earlier ones left (e.g. an index into a list that was dropped).
func c11Apply(ar *pb.ActionResult, vs ...c11Variant) (ok bool) {
	defer func() {
		if recover() != nil {
			ok = false
		}
	}()
	for _, v := range vs {
		v.apply(ar)
	}
	return true
}

var c11Encodings = []string{"grpc", "http-proto", "http-json", "http-proto-zstd", "http-json-zstd"}

func (f *fx) c11Put(enc, key string, ar *pb.ActionResult) (bool, string) {
	if enc == "grpc" {
		ctx, cancel := ctxT()
		defer cancel()
		_, err := f.ac.UpdateActionResult(ctx, &pb.UpdateActionResultRequest{ActionDigest: &pb.Digest{Hash: key, SizeBytes: 9}, ActionResult: ar})
		return err == nil, grpcStatus(err)
	}
	var body []byte
	var err error
	ct := "application/octet-stream"
	if strings.Contains(enc, "json") {
		body, err = protojson.Marshal(ar)
		ct = "application/json"
	} else {
		body, err = proto.Marshal(ar)
	}
	if err != nil {
		return false, "marshal: " + err.Error()
	}
	n := len(body)
	req := httptest.NewRequest(http.MethodPut, "/ac/"+key, nil)
	if strings.HasSuffix(enc, "zstd") {
		body = vlib.ZstdEncode(body)
		req.Header.Set("Content-Encoding", "zstd")
		req.Header.Set("X-Digest-SizeBytes", fmt.Sprint(n))
	}
	req = httptest.NewRequest(http.MethodPut, "/ac/"+key, bytes.NewReader(body))
	req.Header.Set("Content-Type", ct)
	if strings.HasSuffix(enc, "zstd") {
		req.Header.Set("Content-Encoding", "zstd")
		req.Header.Set("X-Digest-SizeBytes", fmt.Sprint(n))
	}
	rec := f.httpDo(req)
	return rec.Code == 200, fmt.Sprint(rec.Code)
}

// c11Get returns the three views: gRPC, HTTP proto, HTTP JSON (nil when missing).
func (f *fx) c11Get(key string) (g, hp, hj *pb.ActionResult, codesSeen string) {
	ctx, cancel := ctxT()
	defer cancel()
	res, err := f.ac.GetActionResult(ctx, &pb.GetActionResultRequest{ActionDigest: &pb.Digest{Hash: key, SizeBytes: 9}})
	if err == nil {
		g = res
	}
	codesSeen = status.Code(err).String()
	rec := f.httpDo(httptest.NewRequest(http.MethodGet, "/ac/"+key, nil))
	codesSeen += fmt.Sprintf("/%d", rec.Code)
	if rec.Code == 200 {
		m := &pb.ActionResult{}
		if proto.Unmarshal(rec.Body.Bytes(), m) == nil {
			hp = m
		}
	}
	req := httptest.NewRequest(http.MethodGet, "/ac/"+key, nil)
	req.Header.Set("Accept", "application/json")
	rec = f.httpDo(req)
	codesSeen += fmt.Sprintf("/%d", rec.Code)
	if rec.Code == 200 {
		m := &pb.ActionResult{}
		if protojson.Unmarshal(rec.Body.Bytes(), m) == nil {
			hj = m
		}
	}
	return
}

// normalise removes the documented server-side changes before comparing.
func c11Norm(uploaded, got *pb.ActionResult) (*pb.ActionResult, *pb.ActionResult) {
	u := proto.Clone(uploaded).(*pb.ActionResult)
	g := proto.Clone(got).(*pb.ActionResult)
	if u.ExecutionMetadata == nil || u.ExecutionMetadata.Worker == "" {
		// worker name filled in when absent
		if g.ExecutionMetadata != nil {
			g.ExecutionMetadata.Worker = ""
		}
		if u.ExecutionMetadata == nil {
			u.ExecutionMetadata = &pb.ExecutedActionMetadata{}
		}
		if g.ExecutionMetadata == nil {
			g.ExecutionMetadata = &pb.ExecutedActionMetadata{}
		}
	}
	// de-inlining: a stream that was uploaded inline WITH its digest may come back as the digest
	// alone (the bytes then have to be in the CAS - checked by the inline cells)
	if len(u.StdoutRaw) > 0 && len(g.StdoutRaw) == 0 && proto.Equal(u.StdoutDigest, g.StdoutDigest) && u.StdoutDigest != nil {
		u.StdoutRaw = nil
	}
	if len(u.StderrRaw) > 0 && len(g.StderrRaw) == 0 && proto.Equal(u.StderrDigest, g.StderrDigest) && u.StderrDigest != nil {
		u.StderrRaw = nil
	}
	return u, g
}

var c11Ctr int

func TestC11(t *testing.T) {
	mode := vlib.Param("MODE", "zstd")
	rep := vlib.NewReport("C11", "E4:messages/"+mode)
	defer rep.Write()
	f := newFx(fxOpts{mode: mode, validateAC: true})
	defer f.close()
	raw := newFx(fxOpts{mode: mode, validateAC: false})
	defer raw.close()
	variants := c11Variants()
	type c11Case struct {
		v    c11Variant
		vs   []c11Variant
		encs []string
	}
	var cases []c11Case
	for _, v := range variants {
		probe := c11Base("probe")
		if !c11Apply(probe, v) || c11RefValid(probe) != v.valid {
			rep.BrokenHarness("variant %s: the reference validator disagrees with its label", v.name)
			return
		}
		cases = append(cases, c11Case{v: v, vs: []c11Variant{v}, encs: c11Encodings})
	}
	// two deviations at once (ordered pairs; quick: one of them a valid shape, two
	// encodings; thorough: all pairs, all encodings); expected validity from the reference validator
	shard, nshards := vlib.Shard()
	for i, a := range variants {
		for j, b := range variants {
			if i == j || a.name == "valid-full" || b.name == "valid-full" {
				continue
			}
			encs := c11Encodings
			if !vlib.Thorough() {
				if !(a.valid != b.valid) || j < i {
					continue
				}
				encs = []string{"grpc", "http-proto"}
			}
			probe := c11Base("probe")
			if !c11Apply(probe, a, b) {
				continue
			}
			cases = append(cases, c11Case{v: c11Variant{name: a.name + " + " + b.name, valid: c11RefValid(probe)}, vs: []c11Variant{a, b}, encs: encs})
		}
	}
	for ci, cs := range cases {
		if ci%nshards != shard {
			continue
		}
		v := cs.v
		for _, enc := range cs.encs {
			rep.Eval()
			c11Ctr++
			tag := fmt.Sprintf("c11/%s/%d/", mode, c11Ctr)
			ar := c11Base(tag)
			if v.valid {
				for _, b := range c11Blobs {
					if r := f.upload(upReq{path: "batch", hash: vlib.Sha(b), size: int64(len(b)), wire: b, abortAfter: -1}); !r.ok {
						rep.BrokenHarness("referenced blob upload: %s", r.status)
					}
				}
			}
			c11Apply(ar, cs.vs...)
			key := vlib.Sha([]byte(tag + "key"))
			filesBefore := len(f.filesFor(key))
			ok, st := f.c11Put(enc, key, proto.Clone(ar).(*pb.ActionResult))
			f.settle()
			g, hp, hj, seen := f.c11Get(key)
			id := fmt.Sprintf("mode=%s message=%s encoding=%s -> upload %s; reads %s", mode, v.name, enc, st, seen)
			k := fmt.Sprintf("C11 %s via %s", strings.Split(v.name, "[")[0]+fieldTail(v.name), enc)
			replay := map[string]interface{}{"cell": id}
			if strings.HasPrefix(st, "marshal:") {
				rep.Skip("not representable in " + enc)
				continue
			}
			if v.valid != ok {
				if ok {
					rep.Violate(k+" invalid ActionResult accepted", id, replay)
				} else {
					rep.Violate(k+" valid ActionResult refused", id, replay)
				}
				continue
			}
			if !ok {
				if g != nil || hp != nil || hj != nil || len(f.filesFor(key)) != filesBefore {
					rep.Violate(k+" rejected upload left an entry behind", id, replay)
				}
				rep.Nontrivial(v.name + enc + "rejected")
				continue
			}
			// accepted: the three views agree with the upload
			for name, got := range map[string]*pb.ActionResult{"gRPC": g, "HTTP protobuf": hp, "HTTP JSON": hj} {
				if got == nil {
					rep.Violate(k+" accepted upload is not served", fmt.Sprintf("%s (%s view missing)", id, name), replay)
					continue
				}
				u, gg := c11Norm(ar, got)
				if !proto.Equal(u, gg) {
					rep.Violate(k+" served message differs from the upload", fmt.Sprintf("%s: %s view differs:\n uploaded %v\n got      %v", id, name, u, gg), replay)
				}
				if (ar.ExecutionMetadata == nil || ar.ExecutionMetadata.Worker == "") && (got.ExecutionMetadata == nil || got.ExecutionMetadata.Worker == "") {
					rep.Violate(k+" worker name not filled in", id+" ("+name+")", replay)
				}
			}
			rep.Nontrivial(v.name + enc + "accepted")
		}
	}
	// validation disabled: the raw key space stores anything, byte for byte
	rawBodies := [][]byte{[]byte("not a protobuf at all \xff\xfe"), {}, []byte{0x20, 0x01}}
	if shard != 0 {
		rawBodies = nil
	}
	for _, body := range rawBodies {
		rep.Eval()
		c11Ctr++
		key := vlib.Sha([]byte(fmt.Sprintf("c11raw/%d", c11Ctr)))
		rec := raw.httpDo(httptest.NewRequest(http.MethodPut, "/ac/"+key, bytes.NewReader(body)))
		get := raw.httpDo(httptest.NewRequest(http.MethodGet, "/ac/"+key, nil))
		id := fmt.Sprintf("mode=%s validation off body=%q -> PUT %d GET %d", mode, body, rec.Code, get.Code)
		if rec.Code != 200 || get.Code != 200 || !bytes.Equal(get.Body.Bytes(), body) {
			rep.Violate("C11 validation disabled: value not stored byte for byte", id, nil)
		} else {
			rep.Nontrivial(id)
		}
	}
	// uploads that are refused because an inlined blob does not match its digest
	for _, where := range []string{"output-file-contents", "stdout_raw", "stderr_raw"} {
		if shard != 0 {
			break
		}
		rep.Eval()
		c11Ctr++
		tag := fmt.Sprintf("c11/%s/inl%d/", mode, c11Ctr)
		data := []byte(tag + "inline data")
		wrong := &pb.Digest{Hash: vlib.Sha([]byte(tag + "something else")), SizeBytes: int64(len(data))}
		ar := &pb.ActionResult{ExitCode: 5}
		switch where {
		case "output-file-contents":
			ar.OutputFiles = []*pb.OutputFile{{Path: "f", Contents: data, Digest: wrong}}
		case "stdout_raw":
			ar.StdoutRaw, ar.StdoutDigest = data, wrong
		case "stderr_raw":
			ar.StderrRaw, ar.StderrDigest = data, wrong
		}
		key := vlib.Sha([]byte(tag + "key"))
		ok, st := f.c11Put("grpc", key, ar)
		f.settle()
		g, hp, hj, seen := f.c11Get(key)
		id := fmt.Sprintf("mode=%s inlined %s with a digest of other bytes via grpc -> upload %s; reads %s", mode, where, st, seen)
		if ok {
			rep.Violate("C11 inlined blob with wrong digest accepted ("+where+")", id, nil)
		} else if g != nil || hp != nil || hj != nil || len(f.filesFor(key)) != 0 {
			rep.Violate("C11 rejected upload left an entry behind (inlined "+where+" does not match its digest)", id, nil)
		} else {
			rep.Nontrivial(id)
		}
	}
	if shard == 0 {
		c11Inline(rep, f, mode)
		c11LastWins(rep, f, mode)
	}
	for _, p := range f.takePanics() {
		rep.Violate("C14 handler panic during C11", p, nil)
	}
	for _, p := range f.invariants() {
		rep.Violate("C11 cache inconsistent "+genericKey(p), p, nil)
	}
	rep.Sample(map[string]interface{}{"messages": len(variants), "encodings": c11Encodings})
}

func fieldTail(name string) string {
	if i := strings.Index(name, "]"); i >= 0 {
		return "[i]" + name[i+1:]
	}
	return ""
}

// c11Inline: inlined data on upload is de-inlined into the CAS under its true
// digest; on download it is inlined as requested and as the budget allows.
func c11Inline(rep *vlib.Report, f *fx, mode string) {
	const budget = 3 << 20
	sizes := map[string]int{"small": 1000, "exactly-budget": budget, "over-budget": budget + 1}
	for _, upFront := range []string{"grpc", "http-proto"} {
		for sn, n := range sizes {
			if upFront != "grpc" && sn != "small" {
				continue
			}
			content := vlib.Bytes("c11/inline/"+mode+"/"+sn+"/"+upFront, n, false)
			dg := &pb.Digest{Hash: vlib.Sha(content), SizeBytes: int64(n)}
			if r := f.upload(upReq{path: "bs", hash: dg.Hash, size: dg.SizeBytes, wire: content, abortAfter: -1}); !r.ok {
				rep.BrokenHarness("inline blob upload: %s", r.status)
				return
			}
			small := []byte("small stderr " + sn + " " + upFront)
			fileC := []byte("file contents " + sn + " " + upFront)
			ar := &pb.ActionResult{
				StdoutDigest: dg,
				StderrRaw:    small, // uploaded inline without digest
				OutputFiles:  []*pb.OutputFile{{Path: "f", Contents: fileC, Digest: &pb.Digest{Hash: vlib.Sha(fileC), SizeBytes: int64(len(fileC))}}},
				ExitCode:     1,
			}
			key := vlib.Sha([]byte("c11 inline key " + mode + sn + upFront))
			if ok, st := f.c11Put(upFront, key, proto.Clone(ar).(*pb.ActionResult)); !ok {
				rep.Violate("C11 inline upload refused", fmt.Sprintf("mode=%s %s: %s", mode, sn, st), nil)
				continue
			}
			// the inlined bytes are in the CAS under their true digests
			for what, b := range map[string][]byte{"stderr_raw": small, "output file contents": fileC} {
				if upFront != "grpc" {
					break // the HTTP front end stores the message as it is; de-inlining happens on the way out
				}
				fm, _, _ := f.present(vlib.Sha(b), int64(len(b)))
				rep.Eval()
				if !fm {
					rep.Violate("C11 inlined bytes not stored in the CAS", fmt.Sprintf("mode=%s %s: %s uploaded inline is not in the CAS under its SHA-256", mode, sn, what), nil)
				}
			}
			for mask := 0; mask < 8; mask++ {
				rep.Eval()
				inOut, inErr, inFile := mask&1 != 0, mask&2 != 0, mask&4 != 0
				req := &pb.GetActionResultRequest{ActionDigest: &pb.Digest{Hash: key, SizeBytes: 9}, InlineStdout: inOut, InlineStderr: inErr}
				if inFile {
					req.InlineOutputFiles = []string{"f"}
				}
				ctx, cancel := ctxT()
				got, err := f.ac.GetActionResult(ctx, req)
				cancel()
				id := fmt.Sprintf("mode=%s uploaded via %s stdout=%s(%d bytes) inline_stdout=%v inline_stderr=%v inline_files=%v", mode, upFront, sn, n, inOut, inErr, inFile)
				k := "C11 inline " + sn
				if err != nil {
					if status.Code(err) == codes.ResourceExhausted {
						continue
					}
					rep.Violate(k+" read failed", fmt.Sprintf("%s: %v", id, err), nil)
					continue
				}
				// stdout
				wantOut := inOut && n <= budget
				if wantOut != (len(got.StdoutRaw) > 0) {
					rep.Violate(k+" stdout inlining does not follow request and budget", fmt.Sprintf("%s: stdout_raw has %d bytes", id, len(got.StdoutRaw)), nil)
				} else if wantOut && !bytes.Equal(got.StdoutRaw, content) {
					rep.Violate(k+" inlined stdout differs from the blob", id, nil)
				}
				if got.StdoutDigest == nil || got.StdoutDigest.Hash != dg.Hash {
					rep.Violate(k+" stdout digest lost", id, nil)
				}
				// stderr: either inlined bytes or a digest of exactly those bytes
				switch {
				case len(got.StderrRaw) > 0:
					if !bytes.Equal(got.StderrRaw, small) {
						rep.Violate(k+" inlined stderr differs from the upload", id, nil)
					}
				case got.StderrDigest == nil || got.StderrDigest.Hash != vlib.Sha(small) || got.StderrDigest.SizeBytes != int64(len(small)):
					rep.Violate(k+" de-inlined stderr has no (or a wrong) digest", fmt.Sprintf("%s: stderr_digest=%v", id, got.StderrDigest), nil)
				}
				if inErr && len(got.StderrRaw) == 0 && !(inOut && n <= budget && n+len(small) > budget) {
					rep.Violate(k+" stderr not inlined although requested and within the budget", id, nil)
				}
				// file
				if len(got.OutputFiles) != 1 || got.OutputFiles[0].Digest == nil || got.OutputFiles[0].Digest.Hash != vlib.Sha(fileC) {
					rep.Violate(k+" output file digest lost", id, nil)
				} else if len(got.OutputFiles[0].Contents) > 0 && !bytes.Equal(got.OutputFiles[0].Contents, fileC) {
					rep.Violate(k+" inlined file contents differ", id, nil)
				} else if !inFile && len(got.OutputFiles[0].Contents) > 0 {
					rep.Violate(k+" file contents inlined although not requested", id, nil)
				}
				// whatever the hit left out must be obtainable: a de-inlined field's digest resolves in the CAS
				if len(got.OutputFiles) == 1 && len(got.OutputFiles[0].Contents) == 0 {
					if rd := f.read("batch", vlib.Sha(fileC), int64(len(fileC)), 0, 0); !rd.ok || !bytes.Equal(rd.data, fileC) {
						rep.Violate(k+" de-inlined file contents are not in the CAS", fmt.Sprintf("%s: the hit carries only the digest, reading it gives %s", id, rd.status), nil)
					}
				}
				if len(got.StderrRaw) == 0 {
					if rd := f.read("batch", vlib.Sha(small), int64(len(small)), 0, 0); !rd.ok || !bytes.Equal(rd.data, small) {
						rep.Violate(k+" de-inlined stderr is not in the CAS", fmt.Sprintf("%s: the hit carries only the digest, reading it gives %s", id, rd.status), nil)
					}
				}
				rep.Nontrivial(id)
			}
		}
	}
}

func c11LastWins(rep *vlib.Report, f *fx, mode string) {
	key := vlib.Sha([]byte("c11 last wins " + mode))
	encs := []string{"grpc", "http-proto", "http-json", "http-json-zstd", "grpc"}
	for i, enc := range encs {
		rep.Eval()
		ar := &pb.ActionResult{ExitCode: int32(100 + i), ExecutionMetadata: &pb.ExecutedActionMetadata{Worker: "w"}}
		if ok, st := f.c11Put(enc, key, ar); !ok {
			rep.Violate("C11 overwrite refused", fmt.Sprintf("mode=%s upload #%d via %s: %s", mode, i, enc, st), nil)
			continue
		}
		// an invalid upload in between must not disturb the stored value
		bad := &pb.ActionResult{ExitCode: 999, OutputFiles: []*pb.OutputFile{{Path: "/abs", Digest: &pb.Digest{Hash: emptySha}}}}
		if ok, _ := f.c11Put(enc, key, bad); ok {
			rep.Violate("C11 invalid overwrite accepted", fmt.Sprintf("mode=%s via %s", mode, enc), nil)
		}
		g, hp, hj, _ := f.c11Get(key)
		for name, got := range map[string]*pb.ActionResult{"gRPC": g, "HTTP protobuf": hp, "HTTP JSON": hj} {
			if got == nil || got.ExitCode != int32(100+i) {
				rep.Violate("C11 latest accepted upload does not win", fmt.Sprintf("mode=%s after upload #%d via %s the %s view is %v", mode, i, enc, name, got), nil)
			}
		}
		rep.Nontrivial(fmt.Sprintf("lastwins %d %s", i, enc))
	}
}
