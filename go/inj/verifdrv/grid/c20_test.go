package grid

// C20: the stored format stays compatible. (a) files laid out by the
// harness's independent implementation of the published v2 format (chunk
// sizes 4 KiB .. 3 MiB, several encoders, any alphanumeric suffix, raw .v1
// files) are served correctly by this build; (b) every file this build writes
// parses with the independent reader and decodes with both zstd
// implementations; (c) a pinned golden directory written by the pinned release
// is still readable and file / object / resource names are unchanged.

import (
	"bytes"
	"context"
	"encoding/json"
	"fmt"
	"io"
	"net"
	"net/http"
	"net/http/httptest"
	"net/url"
	"os"
	"path/filepath"
	"sort"
	"strings"
	"sync"
	"testing"
	"time"

	"github.com/klauspost/compress/zstd"
	bs "google.golang.org/genproto/googleapis/bytestream"
	"google.golang.org/grpc"
	"google.golang.org/grpc/codes"
	"google.golang.org/grpc/credentials/insecure"
	"google.golang.org/grpc/status"
	"google.golang.org/grpc/test/bufconn"

	"github.com/buchgr/bazel-remote/v2/cache"
	"github.com/buchgr/bazel-remote/v2/cache/disk"
	"github.com/buchgr/bazel-remote/v2/cache/grpcproxy"
	"github.com/buchgr/bazel-remote/v2/cache/httpproxy"
	pb "github.com/buchgr/bazel-remote/v2/genproto/build/bazel/remote/execution/v2"
	"github.com/buchgr/bazel-remote/v2/verifdrv/vlib"
)

// ---- (a) reading independently produced files ----

func TestC20Read(t *testing.T) {
	r := strings.Split(vlib.Param("READER", "zstd/go"), "/")
	cfg := fmt.Sprintf("reader=%s/%s", r[0], r[1])
	rep := vlib.NewReport("C20", "E4-read:"+cfg)
	defer rep.Write()
	dir := vlib.Scratch("c20read")
	type enc struct {
		name string
		f    vlib.ChunkEncoder
	}
	encs := []enc{
		{"klauspost-fastest", vlib.ZstdEncoderLevel(zstd.SpeedFastest)},
		{"klauspost-default", vlib.ZstdEncode},
		{"klauspost-best", vlib.ZstdEncoderLevel(zstd.SpeedBestCompression)},
		{"libzstd-1", func(b []byte) []byte { return vlib.ZstdEncodeC(b, 1) }},
		{"libzstd-19", func(b []byte) []byte { return vlib.ZstdEncodeC(b, 19) }},
		{"klauspost-stream-default", vlib.ZstdEncoderStream()},
		{"klauspost-stream-window-32MiB-crc", vlib.ZstdEncoderStream(zstd.WithWindowSize(32<<20), zstd.WithEncoderCRC(true))},
		{"klauspost-stream-best-window-1KiB", vlib.ZstdEncoderStream(zstd.WithEncoderLevel(zstd.SpeedBestCompression), zstd.WithWindowSize(1<<10))},
	}
	chunkSizes := []int{4096, 64 << 10, 1 << 20, 3 << 20}
	suffixes := []string{"0", "123456789", "abcdefXYZ", "a1B2c3D4e5", "000000000000000000000000000042"}
	var blobs []c02Blob
	chunkOf := map[string]int64{}
	i := 0
	for _, cs := range chunkSizes {
		sizes := []int{1, cs - 1, cs, cs + 1, 2*cs + 7}
		if cs >= 1<<20 && !vlib.Thorough() {
			sizes = []int{cs - 1, cs + 1, 2*cs + 7}
		}
		for _, n := range sizes {
			if n < 1 {
				continue
			}
			for ei, e := range encs {
				if !vlib.Thorough() && cs >= 64<<10 && ei%2 == 1 {
					continue
				}
				i++
				kind := []string{"text", "random", "zeros"}[i%3]
				d := c02Content(kind, n, fmt.Sprintf("c20/%d/%d/%s", cs, n, e.name))
				if kind == "zeros" && n >= 32 {
					copy(d[n-16:], vlib.Bytes(fmt.Sprintf("c20z/%d", i), 16, false))
				}
				h := vlib.Sha(d)
				if _, dup := chunkOf[h]; dup {
					continue
				}
				file := vlib.EncodeCasBlobWith(d, cs, true, e.f)
				p := filepath.Join(dir, "cas.v2", h[:2])
				_ = os.MkdirAll(p, 0o755)
				name := fmt.Sprintf("%s-%d-%s", h, n, suffixes[i%len(suffixes)])
				if err := os.WriteFile(filepath.Join(p, name), file, 0o644); err != nil {
					t.Fatal(err)
				}
				blobs = append(blobs, c02Blob{name: fmt.Sprintf("chunk=%d size=%d encoder=%s suffix=%s", cs, n, e.name, suffixes[i%len(suffixes)]), data: d, hash: h})
				chunkOf[h] = int64(cs)
			}
		}
	}
	// identity-compression v2 files (header + raw payload) and raw .v1 files
	for j, n := range []int{1, 4096, 70000} {
		d := vlib.Bytes(fmt.Sprintf("c20/identity/%d", n), n, false)
		h := vlib.Sha(d)
		p := filepath.Join(dir, "cas.v2", h[:2])
		_ = os.MkdirAll(p, 0o755)
		_ = os.WriteFile(filepath.Join(p, fmt.Sprintf("%s-%d-%s", h, n, suffixes[j%len(suffixes)])), vlib.EncodeCasBlobWith(d, 1<<20, false, nil), 0o644)
		blobs = append(blobs, c02Blob{name: fmt.Sprintf("identity-v2 size=%d", n), data: d, hash: h})
		chunkOf[h] = 1 << 20
		d2 := vlib.Bytes(fmt.Sprintf("c20/v1/%d", n), n, true)
		h2 := vlib.Sha(d2)
		p2 := filepath.Join(dir, "cas.v2", h2[:2])
		_ = os.MkdirAll(p2, 0o755)
		_ = os.WriteFile(filepath.Join(p2, fmt.Sprintf("%s-%s.v1", h2, suffixes[(j+2)%len(suffixes)])), d2, 0o644)
		blobs = append(blobs, c02Blob{name: fmt.Sprintf("raw-v1 size=%d", n), data: d2, hash: h2})
		chunkOf[h2] = 1 << 20
	}
	// AC and RAW entries with arbitrary suffixes
	acKey := vlib.Sha([]byte("c20 ac key"))
	acVal := []byte{0x20, 0x09}
	_ = os.MkdirAll(filepath.Join(dir, "ac.v2", acKey[:2]), 0o755)
	_ = os.WriteFile(filepath.Join(dir, "ac.v2", acKey[:2], acKey+"-Zz9"), acVal, 0o644)
	f := newFx(fxOpts{mode: r[0], impl: r[1], validateAC: true, dir: dir})
	defer f.close()
	for _, b := range blobs {
		c02ReadCells(rep, f, "C20 "+cfg, b, chunkOf[b.hash], false)
	}
	rep.Eval()
	rec := f.httpDo(httptest.NewRequest(http.MethodGet, "/ac/"+acKey, nil))
	if rec.Code != 200 || !bytes.Equal(rec.Body.Bytes(), acVal) {
		rep.Violate("C20 action-cache file with an arbitrary suffix not served", fmt.Sprintf("%s: GET /ac -> %d", cfg, rec.Code), nil)
	}
	for _, p := range f.takePanics() {
		rep.Violate("C14 handler panic during C20", p, nil)
	}
	rep.Sample(map[string]interface{}{"cfg": cfg, "files": len(blobs), "chunk_sizes": chunkSizes, "encoders": len(encs), "suffixes": suffixes})
}

// ---- (b) what this build writes ----

func TestC20Write(t *testing.T) {
	w := strings.Split(vlib.Param("WRITER", "zstd/go"), "/")
	cfg := fmt.Sprintf("writer=%s/%s", w[0], w[1])
	rep := vlib.NewReport("C20", "E4-write:"+cfg)
	defer rep.Write()
	px := vlib.NewFakeProxy()
	f := newFx(fxOpts{mode: w[0], impl: w[1], validateAC: true, proxy: px})
	defer f.close()
	sizes := []int{1, 4095, 4096, 4097, 1<<20 - 1, 1 << 20, 1<<20 + 1, 2<<20 + 3}
	want := map[string][]byte{}
	// seventh write path: the file is written when an entry is fetched from a proxy backend,
	// with the size known (gRPC) and unknown (HTTP GET /cas/<hash>, FetchBlob)
	for i, n := range []int{1, 4097, 1<<20 + 1} {
		for _, how := range []string{"fetched-size-known", "fetched-size-unknown-http", "fetched-size-unknown"} {
			d := c02Content([]string{"random", "text", "zeros"}[i], n, fmt.Sprintf("c20w/%s/%d/%s", cfg, n, how))
			h := vlib.Sha(d)
			st := d
			if w[0] == "zstd" {
				st = vlib.EncodeCasBlob(d, 1<<20, true)
			}
			px.Set(cache.CAS, h, st, int64(n))
			var got []byte
			switch how {
			case "fetched-size-known":
				rc, _, _ := f.cache.Get(context.Background(), cache.CAS, h, int64(n), 0)
				if rc != nil {
					got = readAllClose(rc)
				}
			case "fetched-size-unknown":
				rc, _, _ := f.cache.Get(context.Background(), cache.CAS, h, -1, 0)
				if rc != nil {
					got = readAllClose(rc)
				}
			default:
				rec := httptest.NewRecorder()
				f.mux.ServeHTTP(rec, httptest.NewRequest(http.MethodGet, "/cas/"+h, nil))
				got = rec.Body.Bytes()
			}
			if !bytes.Equal(got, d) {
				rep.BrokenHarness("backend fetch (%s, %d bytes) did not deliver the blob", how, n)
				continue
			}
			want[h] = d
		}
	}
	for i, n := range sizes {
		for _, k := range []string{"random", "text", "zeros"} {
			if n == 1 && k != "random" {
				continue
			}
			d := c02Content(k, n, fmt.Sprintf("c20w/%s/%d/%s", cfg, n, k))
			if k == "zeros" && n >= 32 {
				copy(d[n-16:], vlib.Bytes(fmt.Sprintf("c20wz/%d", n), 16, false))
			}
			path := []string{"batch", "bs", "http", "bs_zstd", "http_zstd", "batch_zstd"}[i%6]
			wire := d
			if pathIsZstd(path) {
				wire = vlib.ZstdEncode(d)
			}
			if r := f.upload(upReq{path: path, hash: vlib.Sha(d), size: int64(n), wire: wire, abortAfter: -1}); !r.ok {
				rep.BrokenHarness("upload %d via %s: %s", n, path, r.status)
				continue
			}
			want[vlib.Sha(d)] = d
		}
	}
	acKey := vlib.Sha([]byte("c20w ac"))
	_ = f.cache.Put(context.Background(), cache.AC, acKey, 2, bytes.NewReader([]byte{0x20, 0x05}))
	f.settle()
	files := disk.VfListFiles(f.dir)
	seen := 0
	for rel, sz := range files {
		rep.Eval()
		b, err := os.ReadFile(filepath.Join(f.dir, rel))
		if err != nil || int64(len(b)) != sz {
			rep.BrokenHarness("read %s: %v", rel, err)
			continue
		}
		parts := strings.Split(rel, "/")
		id := fmt.Sprintf("%s file=%s (%d bytes)", cfg, rel, sz)
		if len(parts) != 3 || len(parts[1]) != 2 || !strings.HasPrefix(parts[2], parts[1]) {
			rep.Violate("C20 file outside the published layout", id, nil)
			continue
		}
		name := parts[2]
		switch parts[0] {
		case "ac.v2", "raw.v2":
			// <hash>-<suffix>
			if len(name) < 66 || name[64] != '-' || !alnum(name[65:]) {
				rep.Violate("C20 action-cache file name does not follow <hash>-<suffix>", id, nil)
			}
			seen++
		case "cas.v2":
			hash := name[:64]
			content, ok := want[hash]
			if !ok {
				continue // blobs de-inlined etc.
			}
			seen++
			if strings.HasSuffix(name, ".v1") {
				if w[0] != "uncompressed" {
					rep.Violate("C20 raw .v1 file written in zstd mode", id, nil)
				}
				mid := strings.TrimSuffix(name[65:], ".v1")
				if name[64] != '-' || !alnum(mid) {
					rep.Violate("C20 .v1 file name does not follow <hash>-<suffix>.v1", id, nil)
				}
				if !bytes.Equal(b, content) {
					rep.Violate("C20 .v1 file is not the raw blob", id, nil)
				}
				continue
			}
			if w[0] != "zstd" {
				rep.Violate("C20 compressed file written in uncompressed mode", id, nil)
			}
			rest := strings.Split(name[65:], "-")
			if name[64] != '-' || len(rest) != 2 || rest[0] != fmt.Sprint(len(content)) || !alnum(rest[1]) {
				rep.Violate("C20 CAS file name does not follow <hash>-<logical size>-<suffix>", id, nil)
			}
			for dn, dec := range map[string]func([]byte) ([]byte, error){"klauspost": nil, "libzstd": vlib.ZstdDecodeAllC} {
				got, hdr, err := vlib.DecodeCasBlob(b, dec)
				if err != nil {
					rep.Violate("C20 written file does not parse with the independent reader ("+dn+")", fmt.Sprintf("%s: %v", id, err), nil)
					continue
				}
				if !bytes.Equal(got, content) || hdr.LogicalSize != int64(len(content)) {
					rep.Violate("C20 written file decodes to other bytes ("+dn+")", id, nil)
				}
				if hdr.ChunkSize == 0 || hdr.Compression != 1 {
					rep.Violate("C20 unexpected header fields", fmt.Sprintf("%s: chunk size %d compression %d", id, hdr.ChunkSize, hdr.Compression), nil)
				}
			}
			// the whole file is also one valid zstd stream (skippable frame + frames)
			if whole, err := vlib.ZstdDecodeBoth(b); err != nil || !bytes.Equal(whole, content) {
				rep.Violate("C20 written file is not a plain zstd stream", fmt.Sprintf("%s: %v", id, err), nil)
			}
		default:
			rep.Violate("C20 file outside the published layout", id, nil)
		}
		rep.Nontrivial(rel)
	}
	if seen < len(want) {
		rep.BrokenHarness("only %d of %d written blobs found on disk", seen, len(want))
	}
	rep.Sample(map[string]interface{}{"cfg": cfg, "files_checked": seen})
}

func alnum(s string) bool {
	if s == "" {
		return false
	}
	for _, c := range s {
		if !(c >= '0' && c <= '9' || c >= 'a' && c <= 'z' || c >= 'A' && c <= 'Z') {
			return false
		}
	}
	return true
}

// ---- (c) golden directory and names ----

type goldenEntry struct {
	Kind string `json:"kind"`
	Hash string `json:"hash"`
	Tag  string `json:"tag"`
	Size int    `json:"size"`
	Comp bool   `json:"compressible"`
	Mode string `json:"written_in_mode"`
}

type recordingBS struct {
	bs.UnimplementedByteStreamServer
	mu    sync.Mutex
	names []string
}

func (r *recordingBS) Read(req *bs.ReadRequest, srv bs.ByteStream_ReadServer) error {
	r.mu.Lock()
	r.names = append(r.names, "read "+req.ResourceName)
	r.mu.Unlock()
	return status.Error(codes.NotFound, "recording only")
}

func (r *recordingBS) Write(srv bs.ByteStream_WriteServer) error {
	for {
		req, err := srv.Recv()
		if err != nil {
			break
		}
		if req.ResourceName != "" {
			// uploads/<uuid>/... : the uuid is random by design
			parts := strings.Split(req.ResourceName, "/")
			if len(parts) > 2 && parts[0] == "uploads" {
				parts[1] = "<uuid>"
			}
			r.mu.Lock()
			r.names = append(r.names, "write "+strings.Join(parts, "/"))
			r.mu.Unlock()
		}
	}
	return srv.SendAndClose(&bs.WriteResponse{})
}

func c20Names(rep *vlib.Report) map[string]string {
	out := map[string]string{}
	hashes := []string{"fffefdfcfbfaf9f8f7f6f5f4f3f2f1f0efeeedecebeae9e8e7e6e5e4e3e2e1e0", "00aa000000000000000000000000000000000000000000000000000000000000"}
	// local file names
	for _, mode := range []string{"zstd", "uncompressed"} {
		f := newFx(fxOpts{mode: mode})
		for _, h := range hashes {
			for _, k := range []cache.EntryKind{cache.CAS, cache.AC, cache.RAW} {
				legacy := k == cache.CAS && mode == "uncompressed"
				out[fmt.Sprintf("file|%s|%s|%s", mode, k, h)] = disk.VfFileLocation(f.cache, k, legacy, h, 12345, "RANDOM")
			}
		}
		f.close()
	}
	// http proxy URLs
	for _, mode := range []string{"zstd", "uncompressed"} {
		for _, base := range []string{"", "/prefix", "/p/q/"} {
			var mu sync.Mutex
			var seen []string
			srv := httptest.NewServer(http.HandlerFunc(func(w http.ResponseWriter, r *http.Request) {
				mu.Lock()
				seen = append(seen, r.Method+" "+r.URL.Path)
				mu.Unlock()
				http.NotFound(w, r)
			}))
			u, _ := url.Parse(srv.URL + base)
			px, err := httpproxy.New(u, mode, &http.Client{Timeout: 10 * time.Second}, vlib.SilentLogger(), vlib.SilentLogger(), 1, 8)
			if err != nil {
				rep.BrokenHarness("httpproxy.New: %v", err)
				continue
			}
			for _, h := range hashes {
				for _, k := range []cache.EntryKind{cache.CAS, cache.AC, cache.RAW} {
					mu.Lock()
					seen = nil
					mu.Unlock()
					rc, _, _ := px.Get(context.Background(), k, h, 10)
					if rc != nil {
						_ = rc.Close()
					}
					px.Contains(context.Background(), k, h, 10)
					px.Put(context.Background(), k, h, 3, 3, io.NopCloser(bytes.NewReader([]byte("abc"))))
					waitFor(func() bool { mu.Lock(); defer mu.Unlock(); return len(seen) >= 4 })
					mu.Lock()
					sort.Strings(seen)
					out[fmt.Sprintf("http|%s|%s|%s|%s", mode, base, k, h)] = strings.Join(seen, " ; ")
					mu.Unlock()
				}
			}
			srv.Close()
		}
	}
	// grpc proxy resource names
	for _, mode := range []string{"zstd", "uncompressed"} {
		rec := &recordingBS{}
		lis := bufconn.Listen(1 << 20)
		gs := grpc.NewServer()
		bs.RegisterByteStreamServer(gs, rec)
		go func() { _ = gs.Serve(lis) }()
		conn, _ := grpc.NewClient("passthrough://buf", grpc.WithTransportCredentials(insecure.NewCredentials()),
			grpc.WithContextDialer(func(context.Context, string) (net.Conn, error) { return lis.Dial() }))
		px := grpcproxy.New(grpcproxy.NewGrpcClients(conn), mode, vlib.SilentLogger(), vlib.SilentLogger(), 1, 8)
		for _, h := range hashes {
			rec.mu.Lock()
			rec.names = nil
			rec.mu.Unlock()
			rc, _, _ := px.Get(context.Background(), cache.CAS, h, 77)
			if rc != nil {
				_ = readAllClose(rc)
			}
			px.Put(context.Background(), cache.CAS, h, 77, 3, io.NopCloser(bytes.NewReader([]byte("abc"))))
			waitFor(func() bool { rec.mu.Lock(); defer rec.mu.Unlock(); return len(rec.names) >= 2 })
			rec.mu.Lock()
			sort.Strings(rec.names)
			out[fmt.Sprintf("grpc|%s|%s", mode, h)] = strings.Join(rec.names, " ; ")
			rec.mu.Unlock()
		}
		_ = conn.Close()
		gs.Stop()
	}
	return out
}

func TestC20Golden(t *testing.T) {
	rep := vlib.NewReport("C20", "E4-golden")
	defer rep.Write()
	gdir := filepath.Join(os.Getenv("VERIF_DIR"), "golden")
	write := os.Getenv("VERIF_PARAM_GOLDEN_WRITE") == "1"
	entries := []goldenEntry{}
	add := func(kind, tag string, n int, comp bool, mode string) {
		e := goldenEntry{Kind: kind, Tag: tag, Size: n, Comp: comp, Mode: mode}
		d := vlib.BytesFixed(tag, n, comp)
		if kind == "cas" {
			e.Hash = vlib.Sha(d)
		} else {
			e.Hash = vlib.Sha([]byte("key/" + tag))
		}
		entries = append(entries, e)
	}
	for _, mode := range []string{"zstd", "uncompressed"} {
		add("cas", "golden/"+mode+"/one", 1, false, mode)
		add("cas", "golden/"+mode+"/block", 4097, true, mode)
		if mode == "zstd" {
			add("cas", "golden/"+mode+"/chunks", 2<<20+5, true, mode)
		} else {
			add("cas", "golden/"+mode+"/larger", 70001, true, mode)
		}
		add("ac", "golden/"+mode+"/ac", 120, false, mode)
		add("raw", "golden/"+mode+"/raw", 80, false, mode)
	}
	kindOf := map[string]cache.EntryKind{"cas": cache.CAS, "ac": cache.AC, "raw": cache.RAW}
	if write {
		_ = os.RemoveAll(filepath.Join(gdir, "dir"))
		for _, mode := range []string{"zstd", "uncompressed"} {
			f := newFx(fxOpts{mode: mode})
			for _, e := range entries {
				if e.Mode != mode {
					continue
				}
				d := vlib.BytesFixed(e.Tag, e.Size, e.Comp)
				if err := f.cache.Put(context.Background(), kindOf[e.Kind], e.Hash, int64(len(d)), bytes.NewReader(d)); err != nil {
					t.Fatal(err)
				}
			}
			f.settle()
			for rel := range disk.VfListFiles(f.dir) {
				b, _ := os.ReadFile(filepath.Join(f.dir, rel))
				dst := filepath.Join(gdir, "dir", rel)
				_ = os.MkdirAll(filepath.Dir(dst), 0o755)
				_ = os.WriteFile(dst, b, 0o644)
			}
			f.close()
		}
		b, _ := json.MarshalIndent(entries, "", " ")
		_ = os.WriteFile(filepath.Join(gdir, "entries.json"), b, 0o644)
		nb, _ := json.MarshalIndent(c20Names(rep), "", " ")
		_ = os.WriteFile(filepath.Join(gdir, "names.json"), nb, 0o644)
		return
	}
	// read the pinned directory with this build, in both storage modes and both zstd implementations
	for _, cfg := range []string{"zstd/go", "zstd/cgo", "uncompressed/go", "uncompressed/cgo"} {
		c := strings.Split(cfg, "/")
		dir := vlib.Scratch("golden-" + c[0] + c[1])
		n := 0
		_ = filepath.Walk(filepath.Join(gdir, "dir"), func(p string, fi os.FileInfo, err error) error {
			if err == nil && fi.Mode().IsRegular() {
				rel, _ := filepath.Rel(filepath.Join(gdir, "dir"), p)
				b, _ := os.ReadFile(p)
				_ = os.MkdirAll(filepath.Dir(filepath.Join(dir, rel)), 0o755)
				_ = os.WriteFile(filepath.Join(dir, rel), b, 0o644)
				n++
			}
			return nil
		})
		if n == 0 {
			rep.BrokenHarness("golden directory is empty")
			return
		}
		f := newFx(fxOpts{mode: c[0], impl: c[1], dir: dir})
		for _, e := range entries {
			rep.Eval()
			want := vlib.BytesFixed(e.Tag, e.Size, e.Comp)
			id := fmt.Sprintf("this build (%s) reading pinned %s entry %s (%d bytes, written in %s mode)", cfg, e.Kind, e.Tag, e.Size, e.Mode)
			for _, size := range []int64{int64(e.Size), -1} {
				rc, sz, err := f.cache.Get(context.Background(), kindOf[e.Kind], e.Hash, size, 0)
				var got []byte
				if rc != nil {
					got = readAllClose(rc)
				}
				if err != nil || !bytes.Equal(got, want) || sz != int64(e.Size) {
					rep.Violate("C20 pinned "+e.Kind+" entry not readable", fmt.Sprintf("%s: err=%v, %d bytes, size %d", id, err, len(got), sz), nil)
				}
			}
			if e.Kind == "cas" {
				rc, _, err := f.cache.GetZstd(context.Background(), e.Hash, int64(e.Size), 0)
				var got []byte
				if rc != nil {
					got, _ = vlib.ZstdDecodeBoth(readAllClose(rc))
				}
				if err != nil || !bytes.Equal(got, want) {
					rep.Violate("C20 pinned cas entry not readable as zstd", id, nil)
				}
			}
			rep.Nontrivial(id)
		}
		f.close()
	}
	// names
	raw, err := os.ReadFile(filepath.Join(gdir, "names.json"))
	if err != nil {
		rep.BrokenHarness("no golden names: %v", err)
		return
	}
	want := map[string]string{}
	_ = json.Unmarshal(raw, &want)
	got := c20Names(rep)
	byName := map[string]string{}
	for tuple, name := range want {
		rep.Eval()
		if got[tuple] != name {
			rep.Violate("C20 "+strings.Split(tuple, "|")[0]+" name changed", fmt.Sprintf("%s: pinned release uses %q, this build %q", tuple, name, got[tuple]), nil)
		} else {
			rep.Nontrivial(tuple)
		}
		scope := strings.Join(strings.Split(tuple, "|")[:2], "|")
		if strings.HasPrefix(tuple, "http|") {
			scope = strings.Join(strings.Split(tuple, "|")[:3], "|")
		}
		if prev, dup := byName[scope+"#"+got[tuple]]; dup && prev != tuple {
			rep.Violate("C20 names not injective", fmt.Sprintf("%s and %s both map to %q", prev, tuple, got[tuple]), nil)
		}
		byName[scope+"#"+got[tuple]] = tuple
	}
	rep.Sample(map[string]interface{}{"golden_entries": len(entries), "names": len(want), "example": want["file|zstd|cas|"+"fffefdfcfbfaf9f8f7f6f5f4f3f2f1f0efeeedecebeae9e8e7e6e5e4e3e2e1e0"]})
	_ = pb.Compressor_ZSTD
}
