package grid

// C02: a successful CAS read through any path delivers exactly bytes
// [offset, n) of the stored blob (after zstd decoding), reports size n, never
// exceeds a non-zero read_limit; whatever storage mode / zstd implementation
// wrote or serves the entry. The empty blob is readable from an empty cache.

import (
	"bytes"
	"context"
	"fmt"
	"github.com/buchgr/bazel-remote/v2/cache"
	"io"
	"os"
	"path/filepath"
	"sort"
	"strings"
	"testing"

	"github.com/klauspost/compress/zstd"
	"google.golang.org/protobuf/proto"

	pb "github.com/buchgr/bazel-remote/v2/genproto/build/bazel/remote/execution/v2"
	"github.com/buchgr/bazel-remote/v2/verifdrv/vlib"
)

const emptySha = "e3b0c44298fc1c149afbf4c8996fb92427ae41e4649b934ca495991b7852b855"

type c02Blob struct {
	name string
	data []byte
	hash string
}

func c02Content(kind string, n int, tag string) []byte {
	switch kind {
	case "zeros":
		return vlib.Zeros(n)
	case "text":
		return vlib.Bytes(tag, n, true)
	}
	return vlib.Bytes(tag, n, false)
}

func uniqInts(xs []int64, lo, hi int64) []int64 {
	m := map[int64]bool{}
	var out []int64
	for _, x := range xs {
		if x >= lo && x <= hi && !m[x] {
			m[x] = true
			out = append(out, x)
		}
	}
	sort.Slice(out, func(i, j int) bool { return out[i] < out[j] })
	return out
}

// c02Check applies the read oracle to one result.
func c02Check(rep *vlib.Report, id, key string, content []byte, off, limit int64, rd rdRes, mustSucceed bool, sizeReported bool) {
	rep.Eval()
	n := int64(len(content))
	want := content[off:]
	replay := map[string]interface{}{"cell": id, "status": rd.status, "delivered": len(rd.data)}
	// whatever arrived must be a prefix of the requested range
	if rd.err != errDecode && !bytes.HasPrefix(want, rd.data) {
		rep.Violate(key+" delivered bytes are not a prefix of the requested range", fmt.Sprintf("%s: status %s, %d bytes delivered that are not a prefix of content[%d:%d]", id, rd.status, len(rd.data), off, n), replay)
		return
	}
	if limit > 0 && int64(len(rd.data)) > limit {
		rep.Violate(key+" more than read_limit delivered", fmt.Sprintf("%s: %d bytes delivered with read_limit %d", id, len(rd.data), limit), replay)
	}
	if rd.err == errDecode {
		rep.Violate(key+" zstd response does not decode", fmt.Sprintf("%s: status %s but the %d compressed bytes do not decode with a standard decoder", id, rd.status, len(rd.raw)), replay)
		return
	}
	if rd.ok {
		full := bytes.Equal(rd.data, want)
		limited := limit > 0 && limit < int64(len(want)) && bytes.Equal(rd.data, want[:limit])
		if !full && !limited {
			rep.Violate(key+" successful read is short", fmt.Sprintf("%s: OK with %d bytes, expected %d", id, len(rd.data), len(want)), replay)
		}
		if sizeReported && rd.size >= 0 && rd.size != n && off == 0 {
			rep.Violate(key+" wrong size reported", fmt.Sprintf("%s: reported size %d for a blob of %d bytes", id, rd.size, n), replay)
		}
		rep.Nontrivial(id)
		rep.Outcome("ok")
	} else {
		rep.Outcome("status " + rd.status)
		if mustSucceed {
			rep.Violate(key+" read of a present blob failed", fmt.Sprintf("%s: status %s (err %v) for a blob that is present", id, rd.status, rd.err), replay)
		}
	}
}

func c02ReadCells(rep *vlib.Report, f *fx, cfg string, b c02Blob, chunk int64, allOffsets bool) {
	n := int64(len(b.data))
	for _, path := range readPaths {
		key := "C02 path=" + path
		if strings.HasPrefix(cfg, "C20 ") {
			key = "C20 read path=" + path
		}
		if !strings.HasPrefix(path, "bs") {
			rd := f.read(path, b.hash, n, 0, 0)
			c02Check(rep, fmt.Sprintf("%s blob=%s path=%s", cfg, b.name, path), key, b.data, 0, 0, rd, true, true)
			continue
		}
		var offs []int64
		if allOffsets {
			for o := int64(0); o <= n; o++ {
				offs = append(offs, o)
			}
		} else {
			offs = uniqInts([]int64{0, 1, chunk - 1, chunk, chunk + 1, 2 * chunk, 2*chunk + 1, n - 1, n}, 0, n)
		}
		for _, off := range offs {
			limits := []int64{0}
			if path == "bs" && !allOffsets {
				limits = uniqInts([]int64{0, 1, n - off - 1, n - off, n - off + 1}, 0, 1<<40)
			}
			for _, lim := range limits {
				rd := f.read(path, b.hash, n, off, lim)
				must := off < n && (lim == 0 || lim >= n-off)
				c02Check(rep, fmt.Sprintf("%s blob=%s path=%s off=%d limit=%d", cfg, b.name, path, off, lim), key+" offset-class="+offClass(off, n, chunk), b.data, off, lim, rd, must, false)
			}
		}
	}
}

func offClass(off, n, chunk int64) string {
	switch {
	case off == 0:
		return "0"
	case off == n:
		return "n"
	case off%chunk == 0:
		return "chunk-start"
	case off/chunk == (n-1)/chunk:
		return "in-last-chunk"
	}
	return "mid-chunk"
}

// TestC02 part (i): blobs written by the build in one configuration and read
// by (a restarted server in) another.
func TestC02(t *testing.T) {
	w := strings.Split(vlib.Param("WRITER", "zstd/go"), "/")
	r := strings.Split(vlib.Param("READER", "zstd/go"), "/")
	cfg := fmt.Sprintf("writer=%s/%s reader=%s/%s", w[0], w[1], r[0], r[1])
	rep := vlib.NewReport("C02", "E4-written:"+cfg)
	defer rep.Write()
	sizes := []int{1, 4096, 1 << 20, 1<<20 + 1, 2<<20 + 7}
	kinds := []string{"random", "zeros"}
	if vlib.Thorough() {
		sizes = []int{1, 4095, 4096, 4097, 1<<20 - 1, 1 << 20, 1<<20 + 1, 2 << 20, 2<<20 + 7, 3 << 20}
		kinds = []string{"random", "zeros", "text"}
	}
	var blobs []c02Blob
	for _, n := range sizes {
		for _, k := range kinds {
			if n == 1 && k != "random" {
				continue
			}
			d := c02Content(k, n, fmt.Sprintf("c02/%d/%s", n, k))
			blobs = append(blobs, c02Blob{name: fmt.Sprintf("%s-%d", k, n), data: d, hash: vlib.Sha(d)})
		}
	}
	wf := newFx(fxOpts{mode: w[0], impl: w[1], validateAC: true, keepDir: true})
	for i, b := range blobs {
		// alternate the write path: the stored bytes must not depend on it
		path := []string{"batch", "bs", "http", "bs_zstd", "http_zstd", "batch_zstd"}[i%6]
		wire := b.data
		if pathIsZstd(path) {
			wire = vlib.ZstdEncode(b.data)
		}
		res := wf.upload(upReq{path: path, hash: b.hash, size: int64(len(b.data)), wire: wire, abortAfter: -1})
		if !res.ok {
			rep.BrokenHarness("cannot store %s via %s: %s", b.name, path, res.status)
			return
		}
	}
	// Directory tree and ActionResult fixtures for GetTree / inlined reads
	treeRoot, dirs := c02StoreTree(rep, wf)
	arKey := c02StoreAR(rep, wf, blobs)
	dir := wf.dir
	wf.settle()
	wf.o.keepDir = true
	wf.close()

	rf := newFx(fxOpts{mode: r[0], impl: r[1], validateAC: true, dir: dir})
	for _, b := range blobs {
		c02ReadCells(rep, rf, cfg, b, 1<<20, false)
	}
	c02CheckTree(rep, rf, cfg, treeRoot, dirs)
	c02CheckAR(rep, rf, cfg, arKey, blobs)
	c02Overlap(rep, rf, cfg, blobs)
	for _, p := range rf.takePanics() {
		rep.Violate("C14 handler panic during C02", p, nil)
	}
	rf.close()
	rep.Sample(map[string]interface{}{"cfg": cfg, "blobs": len(blobs), "paths": readPaths})
}

func c02StoreTree(rep *vlib.Report, f *fx) (*pb.Digest, map[string]*pb.Directory) {
	put := func(m proto.Message) *pb.Digest {
		b, _ := proto.Marshal(m)
		d := &pb.Digest{Hash: vlib.Sha(b), SizeBytes: int64(len(b))}
		res := f.upload(upReq{path: "batch", hash: d.Hash, size: d.SizeBytes, wire: b, abortAfter: -1})
		if !res.ok {
			rep.BrokenHarness("cannot store directory: %s", res.status)
		}
		return d
	}
	dirs := map[string]*pb.Directory{}
	leaf := &pb.Directory{Files: []*pb.FileNode{{Name: "leaf.txt", Digest: &pb.Digest{Hash: vlib.Sha([]byte("leaf")), SizeBytes: 4}}}}
	leafD := put(leaf)
	dirs[leafD.Hash] = leaf
	mid := &pb.Directory{Directories: []*pb.DirectoryNode{{Name: "leaf", Digest: leafD}}, Files: []*pb.FileNode{{Name: "m", Digest: &pb.Digest{Hash: vlib.Sha([]byte("m")), SizeBytes: 1}, IsExecutable: true}}}
	midD := put(mid)
	dirs[midD.Hash] = mid
	var many []*pb.FileNode
	for i := 0; i < 300; i++ {
		many = append(many, &pb.FileNode{Name: fmt.Sprintf("file-%04d", i), Digest: &pb.Digest{Hash: vlib.Sha([]byte(fmt.Sprint(i))), SizeBytes: int64(len(fmt.Sprint(i)))}})
	}
	root := &pb.Directory{Directories: []*pb.DirectoryNode{{Name: "a", Digest: midD}, {Name: "b", Digest: leafD}}, Files: many}
	rootD := put(root)
	dirs[rootD.Hash] = root
	return rootD, dirs
}

func c02CheckTree(rep *vlib.Report, f *fx, cfg string, root *pb.Digest, dirs map[string]*pb.Directory) {
	ctx, cancel := ctxT()
	defer cancel()
	rep.Eval()
	st, err := f.cas.GetTree(ctx, &pb.GetTreeRequest{RootDigest: root})
	if err != nil {
		rep.Violate("C02 path=gettree failed", fmt.Sprintf("%s: GetTree: %v", cfg, err), nil)
		return
	}
	var got []*pb.Directory
	for {
		m, err := st.Recv()
		if err != nil {
			break
		}
		got = append(got, m.Directories...)
	}
	// expected: root, a(mid), leaf (under a), leaf (b)
	if len(got) != 4 {
		rep.Violate("C02 path=gettree wrong number of directories", fmt.Sprintf("%s: GetTree returned %d directories, expected 4", cfg, len(got)), nil)
		return
	}
	for i, d := range got {
		b, _ := proto.Marshal(d)
		// deterministic marshal may differ; compare by proto.Equal with the stored one of the same hash
		found := false
		for _, want := range dirs {
			if proto.Equal(d, want) {
				found = true
			}
		}
		if !found {
			rep.Violate("C02 path=gettree directory differs from the stored blob", fmt.Sprintf("%s: directory #%d (%d bytes re-encoded) equals none of the stored Directory messages", cfg, i, len(b)), nil)
		}
	}
	rep.Nontrivial(cfg + " gettree")
}

func c02StoreAR(rep *vlib.Report, f *fx, blobs []c02Blob) *pb.Digest {
	ctx, cancel := ctxT()
	defer cancel()
	// smallest two non-trivial blobs as stdout and an output file
	var so, of c02Blob
	for _, b := range blobs {
		if len(b.data) == 4096 && so.hash == "" {
			so = b
		} else if len(b.data) >= 4096 && len(b.data) <= 1<<20+1 && b.hash != so.hash {
			of = b
		}
	}
	ar := &pb.ActionResult{
		StdoutDigest: &pb.Digest{Hash: so.hash, SizeBytes: int64(len(so.data))},
		OutputFiles:  []*pb.OutputFile{{Path: "out/big", Digest: &pb.Digest{Hash: of.hash, SizeBytes: int64(len(of.data))}}},
		ExitCode:     3,
	}
	key := &pb.Digest{Hash: vlib.Sha([]byte("c02 action")), SizeBytes: 10}
	if _, err := f.ac.UpdateActionResult(ctx, &pb.UpdateActionResultRequest{ActionDigest: key, ActionResult: ar}); err != nil {
		rep.BrokenHarness("cannot store action result: %v", err)
	}
	return key
}

func c02CheckAR(rep *vlib.Report, f *fx, cfg string, key *pb.Digest, blobs []c02Blob) {
	ctx, cancel := ctxT()
	defer cancel()
	rep.Eval()
	byHash := map[string][]byte{}
	for _, b := range blobs {
		byHash[b.hash] = b.data
	}
	got, err := f.ac.GetActionResult(ctx, &pb.GetActionResultRequest{ActionDigest: key, InlineStdout: true, InlineOutputFiles: []string{"out/big"}})
	if err != nil {
		rep.Violate("C02 path=ac-inline failed", fmt.Sprintf("%s: GetActionResult with inlining: %v", cfg, err), nil)
		return
	}
	if got.StdoutDigest != nil && len(got.StdoutRaw) > 0 && !bytes.Equal(got.StdoutRaw, byHash[got.StdoutDigest.Hash]) {
		rep.Violate("C02 path=ac-inline stdout differs", fmt.Sprintf("%s: inlined stdout (%d bytes) differs from the stored blob", cfg, len(got.StdoutRaw)), nil)
	}
	if len(got.StdoutRaw) == 0 {
		rep.Violate("C02 path=ac-inline stdout not inlined", fmt.Sprintf("%s: stdout of 4096 bytes was requested inline and is within the budget, but was not inlined", cfg), nil)
	}
	for _, o := range got.OutputFiles {
		if len(o.Contents) > 0 && !bytes.Equal(o.Contents, byHash[o.Digest.Hash]) {
			rep.Violate("C02 path=ac-inline file contents differ", fmt.Sprintf("%s: inlined contents of %s (%d bytes) differ from the stored blob", cfg, o.Path, len(o.Contents)), nil)
		}
		if len(o.Contents) == 0 {
			rep.Violate("C02 path=ac-inline file not inlined", fmt.Sprintf("%s: %s was requested inline and is within the budget, but was not inlined", cfg, o.Path), nil)
		}
	}
	rep.Nontrivial(cfg + " ac-inline")
}

// TestC02Fmt2 part (ii): files laid out by the harness's independent format
// writer with small chunk sizes; every offset.
func TestC02Fmt2(t *testing.T) {
	r := strings.Split(vlib.Param("READER", "zstd/go"), "/")
	cfg := fmt.Sprintf("fmt2 reader=%s/%s", r[0], r[1])
	rep := vlib.NewReport("C02", "E4-fmt2:"+cfg)
	defer rep.Write()
	chunks := []int{4096}
	sizes := []int{4097, 8192, 12289}
	if vlib.Thorough() {
		chunks = []int{4096, 8192}
		sizes = []int{1, 4095, 4096, 4097, 8192, 12289}
	}
	dir := vlib.Scratch("c02fmt2")
	var blobs []c02Blob
	chunkOf := map[string]int64{}
	encs := []vlib.ChunkEncoder{vlib.ZstdEncode, vlib.ZstdEncoderLevel(zstd.SpeedFastest), vlib.ZstdEncoderLevel(zstd.SpeedBestCompression)}
	i := 0
	for _, c := range chunks {
		for _, n := range sizes {
			for _, k := range []string{"text", "random"} {
				d := c02Content(k, n, fmt.Sprintf("c02fmt2/%d/%d/%s", c, n, k))
				h := vlib.Sha(d)
				file := vlib.EncodeCasBlobWith(d, c, true, encs[i%len(encs)])
				i++
				p := filepath.Join(dir, "cas.v2", h[:2])
				_ = os.MkdirAll(p, 0o755)
				suffix := []string{"123456789", "abcXYZ", "a1B2c3"}[i%3]
				if err := os.WriteFile(filepath.Join(p, fmt.Sprintf("%s-%d-%s", h, n, suffix)), file, 0o644); err != nil {
					t.Fatal(err)
				}
				b := c02Blob{name: fmt.Sprintf("fmt2-chunk%d-%s-%d", c, k, n), data: d, hash: h}
				blobs = append(blobs, b)
				chunkOf[h] = int64(c)
			}
		}
	}
	f := newFx(fxOpts{mode: r[0], impl: r[1], validateAC: true, dir: dir})
	for _, b := range blobs {
		c02ReadCells(rep, f, cfg, b, chunkOf[b.hash], true)
	}
	for _, p := range f.takePanics() {
		rep.Violate("C14 handler panic during C02", p, nil)
	}
	f.close()
	rep.Sample(map[string]interface{}{"cfg": cfg, "files": len(blobs), "chunk_sizes": chunks, "sizes": sizes, "offsets": "every offset 0..n on ByteStream.Read blobs/ and compressed-blobs/zstd"})
}

// TestC02Empty part (iii): the empty blob on every path against an empty cache.
func TestC02Empty(t *testing.T) {
	rep := vlib.NewReport("C02", "E4-empty")
	defer rep.Write()
	for _, cfg := range []string{"zstd/go", "zstd/cgo", "uncompressed/go", "uncompressed/cgo"} {
		c := strings.Split(cfg, "/")
		f := newFx(fxOpts{mode: c[0], impl: c[1], validateAC: true})
		for _, path := range readPaths {
			rd := f.read(path, emptySha, 0, 0, 0)
			rep.Eval()
			id := fmt.Sprintf("%s empty blob path=%s", cfg, path)
			if !rd.ok || len(rd.data) != 0 {
				rep.Violate("C02 empty blob path="+path, fmt.Sprintf("%s: status %s, %d bytes, err %v", id, rd.status, len(rd.data), rd.err), nil)
			} else {
				rep.Nontrivial(id)
			}
		}
		fm, head, err := f.present(emptySha, 0)
		rep.Eval()
		if err != nil || !fm || !head {
			rep.Violate("C02 empty blob reported missing", fmt.Sprintf("%s: FindMissing present=%v HEAD=%v err=%v", cfg, fm, head, err), nil)
		}
		f.close()
	}
	rep.Sample("empty blob on " + strings.Join(readPaths, ","))
}

// c02Overlap: two readers alive at the same time (two requests whose streaming overlaps): every
// order of {open A, open B, drain A, drain B} in which each reader is opened before it is
// drained, for plain and zstd readers at unaligned offsets. A reader must keep delivering its own
// blob's bytes whatever other readers are opened or drained meanwhile (no shared scratch buffer).
func c02Overlap(rep *vlib.Report, f *fx, cfg string, blobs []c02Blob) {
	var big []c02Blob
	for _, b := range blobs {
		if len(b.data) > 1<<20 {
			big = append(big, b)
		}
	}
	if len(big) < 2 {
		return
	}
	a, b := big[0], big[len(big)-1]
	type rd struct {
		blob c02Blob
		off  int64
		zstd bool
		rc   io.ReadCloser
	}
	open := func(r *rd) error {
		var err error
		if r.zstd {
			r.rc, _, err = f.cache.GetZstd(context.Background(), r.blob.hash, int64(len(r.blob.data)), r.off)
		} else {
			r.rc, _, err = f.cache.Get(context.Background(), cache.CAS, r.blob.hash, int64(len(r.blob.data)), r.off)
		}
		if err == nil && r.rc == nil {
			err = fmt.Errorf("miss")
		}
		return err
	}
	drain := func(r *rd) ([]byte, error) {
		data, err := io.ReadAll(r.rc)
		_ = r.rc.Close()
		if err == nil && r.zstd {
			data, err = vlib.ZstdDecodeAll(data)
		}
		return data, err
	}
	orders := []string{"oA oB dA dB", "oA oB dB dA", "oB oA dA dB", "oB oA dB dA", "oA dA oB dB", "oB dB oA dA"}
	for _, za := range []bool{false, true} {
		for _, zb := range []bool{false, true} {
			for _, offs := range [][2]int64{{1, 1}, {1, 1<<20 + 1}, {1<<20 - 1, 7}} {
				for _, order := range orders {
					rep.Eval()
					ra := &rd{blob: a, off: offs[0], zstd: za}
					rb := &rd{blob: b, off: offs[1], zstd: zb}
					id := fmt.Sprintf("%s overlapping readers A=%s@%d zstd=%v B=%s@%d zstd=%v order=[%s]", cfg, a.name, offs[0], za, b.name, offs[1], zb, order)
					bad := ""
					for _, step := range strings.Fields(order) {
						r := ra
						if step[1] == 'B' {
							r = rb
						}
						if step[0] == 'o' {
							if err := open(r); err != nil {
								bad = fmt.Sprintf("open %c: %v", step[1], err)
								break
							}
							continue
						}
						data, err := drain(r)
						if err != nil || !bytes.Equal(data, r.blob.data[r.off:]) {
							bad = fmt.Sprintf("reader %c delivered %d bytes, err=%v, equal to its range: %v", step[1], len(data), err, bytes.Equal(data, r.blob.data[r.off:]))
							break
						}
					}
					if bad != "" {
						rep.Violate("C02 overlapping readers disturb each other", id+": "+bad, nil)
					} else {
						rep.Nontrivial(id)
					}
				}
			}
		}
	}
}
