package grid

// C01: through every CAS write path an upload is acknowledged only if its
// logical bytes have exactly the declared length and SHA-256; everything else
// is answered with an error and does not make the claimed digest present.
// Exhaustive grid: storage mode x zstd impl x write path x size x content x
// corruption kind, through the real handlers.

import (
	"bytes"
	"fmt"
	"strings"
	"testing"

	"github.com/buchgr/bazel-remote/v2/verifdrv/vlib"
)

type c01Cell struct {
	name   string
	req    upReq
	expect string // accept | reject | either
	// the logical payload the client actually sends (for the "no file for a
	// hash the payload does not have" check)
	payload       []byte
	content       []byte // the blob the declared digest was computed from
	presentBefore bool   // the true blob was uploaded before this cell
}

func flip(b []byte, i int) []byte {
	out := append([]byte(nil), b...)
	out[i] ^= 0x01
	return out
}

func upper(h string) string { return strings.ToUpper(h) }

// c01Cells enumerates the corruption kinds applicable to path.
func c01Cells(path string, content []byte, other []byte) []c01Cell {
	n := len(content)
	h := vlib.Sha(content)
	zs := pathIsZstd(path)
	wire := func(p []byte) []byte {
		if zs {
			if len(p) == 0 {
				return vlib.ZstdEncode(p)
			}
			return vlib.ZstdEncode(p)
		}
		return p
	}
	mk := func(name string, payload []byte, hash string, size int64, expect string) c01Cell {
		return c01Cell{name: name, expect: expect, payload: payload, content: content,
			req: upReq{path: path, hash: hash, size: size, wire: wire(payload), abortAfter: -1}}
	}
	var cells []c01Cell
	splitChunks := func(p []byte) [][]byte {
		if len(p) < 3 {
			return [][]byte{p}
		}
		a, b := len(p)/3, 2*len(p)/3
		return [][]byte{p[:a], p[a:b], p[b:]}
	}
	switch path {
	case "splice", "splice_nodigest":
		add := func(name string, payload []byte, hash string, size int64, expect string, chunks [][]byte) {
			c := mk(name, payload, hash, size, expect)
			c.req.chunks = chunks
			cells = append(cells, c)
		}
		add("none", content, h, int64(n), "accept", splitChunks(content))
		{
			c := mk("missing-chunk", nil, h, int64(n), "reject")
			c.req.chunks = splitChunks(content)
			c.req.skipChunk = len(c.req.chunks) - 1
			c.req.hasSkip = true
			cells = append(cells, c)
		}
		if n >= 3 {
			fl := flip(content, n/2)
			exp := "reject"
			if path == "splice_nodigest" {
				exp = "accept" // the server computes the digest of what it spliced
			}
			add("flip-mid", fl, h, int64(n), exp, splitChunks(fl))
			if path == "splice" {
				add("drop-last", content[:n-1], h, int64(n), "reject", splitChunks(content[:n-1]))
				ap := append(append([]byte(nil), content...), 'x')
				add("append-1", ap, h, int64(n), "reject", splitChunks(ap))
				add("size-1", content, h, int64(n-1), "reject", splitChunks(content))
				add("size+1", content, h, int64(n+1), "reject", splitChunks(content))
				add("hash-other", content, vlib.Sha(other), int64(n), "reject", splitChunks(content))
				add("hash-of-the-empty-blob", content, emptySha, int64(n), "reject", splitChunks(content))
				add("hash-upper", content, upper(h), int64(n), "reject", splitChunks(content))
				add("hash-63", content, h[:63], int64(n), "reject", splitChunks(content))
			}
		}
		return cells
	case "ac_file", "ac_file_second", "ac_stdout", "ac_stderr":
		cells = append(cells, mk("none", content, h, int64(n), "accept"))
		od := mk("none-omit-digest", content, h, int64(n), "accept")
		od.req.omitDigest = true
		cells = append(cells, od)
		cells = append(cells, mk("flip-mid", flip(content, n/2), h, int64(n), "reject"))
		if n > 1 {
			cells = append(cells, mk("drop-last", content[:n-1], h, int64(n), "reject"))
		}
		cells = append(cells, mk("append-1", append(append([]byte(nil), content...), 'x'), h, int64(n), "reject"))
		cells = append(cells, mk("size+1", content, h, int64(n+1), "reject"))
		if n > 1 {
			cells = append(cells, mk("size-1", content, h, int64(n-1), "reject"))
		}
		cells = append(cells, mk("hash-other", content, vlib.Sha(other), int64(n), "reject"))
		cells = append(cells, mk("hash-of-the-empty-blob", content, emptySha, int64(n), "reject"))
		cells = append(cells, mk("hash-upper", content, upper(h), int64(n), "reject"))
		return cells
	case "fetch", "fetch_nosri":
		cells = append(cells, mk("none", content, h, int64(n), "accept"))
		nl := mk("none-no-content-length", content, h, int64(n), "accept")
		nl.req.noSizeHdr = true
		cells = append(cells, nl)
		if path == "fetch" {
			cells = append(cells, mk("flip-mid", flip(content, n/2), h, int64(n), "reject"))
			cells = append(cells, mk("append-1", append(append([]byte(nil), content...), 'x'), h, int64(n), "reject"))
			cells = append(cells, mk("hash-other", content, vlib.Sha(other), int64(n), "reject"))
			fl := mk("flip-mid-no-content-length", flip(content, n/2), h, int64(n), "reject")
			fl.req.noSizeHdr = true
			cells = append(cells, fl)
		}
		if n > 1 {
			// origin announces n bytes and delivers n-1
			ab := mk("origin-short-body", content, h, int64(n), "reject")
			ab.req.abortAfter = n - 1
			ab.payload = content[:n-1]
			cells = append(cells, ab)
		}
		return cells
	}
	// http, batch, bytestream (identity and zstd transport)
	cells = append(cells, mk("none", content, h, int64(n), "accept"))
	cells = append(cells, mk("flip-first", flip(content, 0), h, int64(n), "reject"))
	cells = append(cells, mk("flip-mid", flip(content, n/2), h, int64(n), "reject"))
	cells = append(cells, mk("flip-last", flip(content, n-1), h, int64(n), "reject"))
	if n > 1 {
		cells = append(cells, mk("drop-last", content[:n-1], h, int64(n), "reject"))
		cells = append(cells, mk("truncate-half", content[:n/2], h, int64(n), "reject"))
		cells = append(cells, mk("size-1", content, h, int64(n-1), "reject"))
	}
	cells = append(cells, mk("empty-body", []byte{}, h, int64(n), "reject"))
	cells = append(cells, mk("append-1", append(append([]byte(nil), content...), 'x'), h, int64(n), "reject"))
	cells = append(cells, mk("append-1MiB", append(append([]byte(nil), content...), vlib.Bytes("pad", 1<<20, false)...), h, int64(n), "reject"))
	cells = append(cells, mk("size+1", content, h, int64(n+1), "reject"))
	cells = append(cells, mk("hash-other", content, vlib.Sha(other), int64(n), "reject"))
	cells = append(cells, mk("hash-of-the-empty-blob", content, emptySha, int64(n), "reject"))
	cells = append(cells, mk("hash-upper", content, upper(h), int64(n), "reject"))
	cells = append(cells, mk("hash-63", content, h[:63], int64(n), "reject"))
	uc := mk("compressor-unsupported", content, h, int64(n), "reject")
	uc.req.compressor = "unsupported"
	cells = append(cells, uc)
	if path == "http" {
		ns := mk("none-content-length-only", content, h, int64(n), "accept")
		ns.req.noSizeHdr = true
		cells = append(cells, ns)
		nf := mk("flip-mid-content-length-only", flip(content, n/2), h, int64(n), "reject")
		nf.req.noSizeHdr = true
		cells = append(cells, nf)
	}
	if hasPrefixAny(path, "http", "bs") {
		ab := mk("abort-part-way", content, h, int64(n), "reject")
		if strings.HasPrefix(path, "bs") {
			ab.req.msgSize = (len(ab.req.wire) + 2) / 3
			if ab.req.msgSize == 0 {
				ab.req.msgSize = 1
			}
			ab.req.abortAfter = 1
			if len(ab.req.wire) <= ab.req.msgSize {
				ab.req.abortAfter = 0
			}
		} else {
			ab.req.abortAfter = len(ab.req.wire) / 2
		}
		cells = append(cells, ab)
	}
	if zs {
		z := vlib.ZstdEncode(content)
		raw := func(name string, w []byte, expect string, payload []byte) {
			c := mk(name, payload, h, int64(n), expect)
			c.req.wire = w
			cells = append(cells, c)
		}
		raw("zstd-garbage", vlib.Bytes("garbage", 64, false), "reject", nil)
		raw("zstd-cut-1", z[:len(z)-1], "reject", nil)
		raw("zstd-trailing-garbage", append(append([]byte(nil), z...), []byte("garbage!")...), "reject", nil)
		// stray bytes of every short length after a complete frame: zeros, and the
		// beginning of a further frame cut off inside its magic / header
		next := vlib.ZstdEncode([]byte("next frame"))
		for _, l := range []int{1, 2, 3, 4, 5, 6, 9} {
			raw(fmt.Sprintf("zstd-trailing-%d-zero-bytes", l), append(append([]byte(nil), z...), make([]byte, l)...), "reject", nil)
			raw(fmt.Sprintf("zstd-trailing-frame-cut-at-%d", l), append(append([]byte(nil), z...), next[:l]...), "reject", nil)
		}
		if n >= 2 {
			two := append(append([]byte(nil), vlib.ZstdEncode(content[:n/2])...), vlib.ZstdEncode(content[n/2:])...)
			raw("zstd-two-frames", two, "either", content)
		}
		extra := append(append([]byte(nil), z...), vlib.ZstdEncode([]byte("extra"))...)
		raw("zstd-extra-frame", extra, "reject", append(append([]byte(nil), content...), []byte("extra")...))
		raw("zstd-identity-sent", content, "reject", nil)
	}
	return cells
}

func c01Sizes() []int {
	if vlib.Thorough() {
		return []int{1, 4095, 4096, 4097, 1<<20 - 1, 1 << 20, 1<<20 + 1, 2<<20 + 1}
	}
	return []int{1, 4096, 4097, 1 << 20, 1<<20 + 1}
}

func TestC01(t *testing.T) {
	rep := vlib.NewReport("C01", "E4:"+vlib.Param("CONFIG", "zstd/go"))
	defer rep.Write()
	cfg := strings.Split(vlib.Param("CONFIG", "zstd/go"), "/")
	mode, impl := cfg[0], cfg[1]
	shard, nshards := vlib.Shard()
	accepted := map[string]int{}
	rejected := map[string]int{}
	for pi, path := range writePaths {
		if pi%nshards != shard {
			continue
		}
		f := newFx(fxOpts{mode: mode, impl: impl, validateAC: true, asset: true})
		idx := 0
		for _, n := range c01Sizes() {
			kinds := []string{"random", "zeros"}
			for _, kind := range kinds {
				if kind == "zeros" && n < 64 {
					continue
				}
				base := fmt.Sprintf("c01/%s/%s/%s/%d/%s", mode, impl, path, n, kind)
				// cells for this (size, content): every cell gets its own
				// fresh content so that presence can only come from it.
				protos := c01Cells(path, make([]byte, maxInt(n, 1)), []byte{0})
				for ci := range protos {
					if kind == "zeros" && !(protos[ci].name == "none" || protos[ci].name == "flip-mid" || protos[ci].name == "drop-last") && !vlib.Thorough() {
						continue
					}
					idx++
					var content []byte
					switch {
					case n == 1:
						content = []byte{byte(2 * (idx % 120))}
					case kind == "zeros":
						content = vlib.Zeros(n)
						copy(content[n-24:], vlib.Bytes(fmt.Sprintf("%s/%d", base, ci), 24, false))
					default:
						content = vlib.Bytes(fmt.Sprintf("%s/%d", base, ci), n, false)
					}
					other := vlib.Bytes(fmt.Sprintf("%s/%d/other", base, ci), maxInt(n, 2), false)
					cell := c01Cells(path, content, other)[ci]
					c01Run(rep, f, mode, impl, path, n, kind, cell, accepted, rejected)
					if (cell.name == "size-1" || cell.name == "size+1") && kind != "zeros" {
						// the same cell from a non-initial state: the true blob (same hash, true
						// size) is already present, the upload claims another size for that hash
						idx++
						content2 := vlib.Bytes(fmt.Sprintf("%s/%d/present-before", base, ci), n, false)
						if n == 1 {
							content2 = []byte{byte(2*(idx%120) + 1)}
						}
						cell2 := c01Cells(path, content2, other)[ci]
						cell2.name += "-true-blob-present"
						cell2.presentBefore = true
						if r := f.upload(upReq{path: "batch", hash: vlib.Sha(content2), size: int64(len(content2)), wire: content2, abortAfter: -1}); !r.ok {
							rep.BrokenHarness("pre-upload failed: %s", r.status)
						} else {
							c01Run(rep, f, mode, impl, path, n, kind, cell2, accepted, rejected)
						}
					}
				}
			}
		}
		for _, p := range f.invariants() {
			rep.Violate("C01 "+path+" leaves cache inconsistent: "+genericKey(p), fmt.Sprintf("after the %s cells in %s/%s: %s", path, mode, impl, p), nil)
		}
		f.close()
	}
	// vacuity guards: every path accepted something and rejected something
	for pi, path := range writePaths {
		if pi%nshards != shard {
			continue
		}
		if accepted[path] == 0 {
			rep.BrokenHarness("path %s never accepted a well-formed upload", path)
		}
		if rejected[path] == 0 && path != "fetch_nosri" {
			rep.BrokenHarness("path %s never rejected a malformed upload", path)
		}
	}
}

func maxInt(a, b int) int {
	if a > b {
		return a
	}
	return b
}

func genericKey(s string) string {
	var b strings.Builder
	prevDigit := false
	for _, r := range s {
		if (r >= '0' && r <= '9') || (r >= 'a' && r <= 'f' && prevDigit) {
			if !prevDigit {
				b.WriteByte('N')
			}
			prevDigit = true
			continue
		}
		prevDigit = false
		b.WriteRune(r)
	}
	out := b.String()
	if len(out) > 100 {
		out = out[:100]
	}
	return out
}

func c01Run(rep *vlib.Report, f *fx, mode, impl, path string, n int, kind string, cell c01Cell, accepted, rejected map[string]int) {
	rep.Eval()
	id := fmt.Sprintf("%s/%s path=%s size=%d content=%s corruption=%s", mode, impl, path, n, kind, cell.name)
	key := fmt.Sprintf("C01 path=%s corruption=%s", path, cell.name)
	res := f.upload(cell.req)
	for _, p := range f.takePanics() {
		rep.Violate("C14 handler panic during C01 "+path+" "+cell.name, p, map[string]interface{}{"cell": id})
	}
	replay := map[string]interface{}{"cell": id, "status": res.status, "declared": fmt.Sprintf("%s/%d", short(cell.req.hash), cell.req.size)}
	trueHash := vlib.Sha(cell.content)
	switch {
	case cell.expect == "accept" && !res.ok:
		rep.Violate(key+" well-formed upload refused", fmt.Sprintf("%s: well-formed upload answered %s", id, res.status), replay)
		return
	case cell.expect == "reject" && res.ok:
		rep.Violate(key+" acknowledged", fmt.Sprintf("%s: upload whose bytes do not have the declared length and SHA-256 (declared %s/%d, sent %d logical bytes) was acknowledged with %s", id, short(cell.req.hash), cell.req.size, len(cell.payload), res.status), replay)
		return
	}
	if res.ok {
		accepted[path]++
		rep.Outcome("accepted " + path)
		// the digest the upload is known by afterwards
		wantHash, wantSize := trueHash, int64(len(cell.content))
		if path == "splice_nodigest" || path == "fetch_nosri" {
			wantHash, wantSize = vlib.Sha(cell.payload), int64(len(cell.payload))
		}
		if res.digest != nil && (res.digest.Hash != wantHash || res.digest.SizeBytes != wantSize) {
			rep.Violate(key+" wrong digest in response", fmt.Sprintf("%s: server reported digest %s/%d, the bytes have %s/%d", id, short(res.digest.Hash), res.digest.SizeBytes, short(wantHash), wantSize), replay)
		}
		fm, head, err := f.present(wantHash, wantSize)
		if err != nil || !fm || !head {
			rep.Violate(key+" acknowledged blob not present", fmt.Sprintf("%s: acknowledged, but FindMissingBlobs present=%v HEAD present=%v err=%v", id, fm, head, err), replay)
			return
		}
		want := cell.content
		if path == "splice_nodigest" || path == "fetch_nosri" {
			want = cell.payload
		}
		for _, rp := range []string{"batch", "http_zstd"} {
			rd := f.read(rp, wantHash, wantSize, 0, 0)
			if !rd.ok || !bytes.Equal(rd.data, want) {
				rep.Violate(key+" acknowledged blob not readable", fmt.Sprintf("%s: acknowledged, but reading it back via %s gave status %s, %d bytes (equal=%v)", id, rp, rd.status, len(rd.data), bytes.Equal(rd.data, want)), replay)
			}
		}
		rep.Nontrivial("acc/" + path + "/" + cell.name + "/" + fmt.Sprint(n) + kind)
		if accepted[path] <= 1 {
			rep.Sample(replay)
		}
		return
	}
	rejected[path]++
	rep.Outcome("rejected " + path + " " + cell.name + " -> " + res.status)
	rep.Nontrivial("rej/" + path + "/" + cell.name + "/" + fmt.Sprint(n) + kind)
	if rejected[path] <= 1 {
		rep.Sample(replay)
	}
	// the claimed digest must not have become present
	f.settle()
	if len(cell.req.hash) == 64 && cell.req.hash == strings.ToLower(cell.req.hash) && cell.req.size >= 0 && cell.req.hash != emptySha {
		fm, _, err := f.present(cell.req.hash, cell.req.size)
		if err == nil && fm {
			rep.Violate(key+" rejected upload made the claimed digest present", fmt.Sprintf("%s: answered %s but FindMissingBlobs now reports %s/%d present", id, res.status, short(cell.req.hash), cell.req.size), replay)
		}
		if cell.presentBefore {
			// the true blob must have survived the refused upload
			if fm2, _, _ := f.present(trueHash, int64(len(cell.content))); !fm2 {
				rep.Violate(key+" refused upload removed the blob that was present", id, replay)
			}
		}
		// nothing may be stored under a hash the payload does not have
		if !cell.presentBefore && (cell.payload == nil || vlib.Sha(cell.payload) != cell.req.hash) {
			if files := f.filesFor(cell.req.hash); len(files) > 0 {
				rep.Violate(key+" rejected upload left a file under the claimed hash", fmt.Sprintf("%s: answered %s but %v exists", id, res.status, files), replay)
			}
			_, head, _ := f.present(cell.req.hash, cell.req.size)
			if head {
				rep.Violate(key+" rejected upload visible to HEAD", fmt.Sprintf("%s: answered %s but HEAD /cas/%s is 200", id, res.status, short(cell.req.hash)), replay)
			}
		}
	}
}
