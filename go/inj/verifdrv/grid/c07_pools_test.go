package grid

// C07 (server level): the only state the request handlers share besides the
// disk cache are the process-wide zstd encoder/decoder pools. A handler that
// returns an object to a pool twice makes two later requests share one
// decoder: torn or mixed reads between unrelated requests. Explicit-state
// view: after every class of request outcome (success, refused for a wrong
// hash, undecodable stream, truncated stream, client abort; uploads and
// downloads, every compressed path) the pools must not hold any object twice.
// The check runs on one P with the garbage collector off, so that sync.Pool
// behaves like a plain stack and nothing is dropped: it then draws more
// objects than were ever returned and requires them to be pairwise distinct
// (objects made by the pool's New function are fresh, so a repeat can only
// come from a double Put).

import (
	"context"
	"fmt"
	"io"
	"net/http"
	"net/http/httptest"
	"runtime"
	"runtime/debug"
	"sync"
	"testing"

	"google.golang.org/genproto/googleapis/bytestream"

	"github.com/buchgr/bazel-remote/v2/utils/zstdpool"
	"github.com/buchgr/bazel-remote/v2/verifdrv/vlib"
)

func poolDuplicates(p *sync.Pool, draw int) (dups int, first string) {
	seen := map[interface{}]int{}
	var got []interface{}
	for i := 0; i < draw; i++ {
		x := p.Get()
		if x == nil {
			break
		}
		got = append(got, x)
		seen[x]++
		if seen[x] == 2 {
			dups++
			if first == "" {
				first = fmt.Sprintf("%T %p", x, x)
			}
		}
	}
	// give every distinct object back exactly once
	for x := range seen {
		p.Put(x)
	}
	_ = got
	return
}

func TestC07Pools(t *testing.T) {
	mode := vlib.Param("MODE", "zstd")
	prop := vlib.Param("PROPERTY", "C07")
	rep := vlib.NewReport(prop, "E4-pools:"+mode)
	defer rep.Write()
	oldP := runtime.GOMAXPROCS(1)
	defer runtime.GOMAXPROCS(oldP)
	oldGC := debug.SetGCPercent(-1)
	defer debug.SetGCPercent(oldGC)
	f := newFx(fxOpts{mode: mode, validateAC: true})
	defer f.close()
	srv := httptest.NewServer(f.mux)
	defer srv.Close()

	stored := vlib.Bytes("c07pools/stored/"+mode, 3<<20+11, false)
	sh := vlib.Sha(stored)
	if r := f.upload(upReq{path: "bs", hash: sh, size: int64(len(stored)), wire: stored, abortAfter: -1, msgSize: 1 << 20}); !r.ok {
		rep.BrokenHarness("setup upload: %s", r.status)
		return
	}
	ctr := 0
	fresh := func(n int) []byte {
		ctr++
		return vlib.Bytes(fmt.Sprintf("c07pools/%s/%d", mode, ctr), n, false)
	}
	type class struct {
		name string
		run  func()
	}
	up := func(path, how string) func() {
		return func() {
			d := fresh(200000)
			wire := vlib.ZstdEncode(d)
			u := upReq{path: path, hash: vlib.Sha(d), size: int64(len(d)), abortAfter: -1, msgSize: 40000}
			switch how {
			case "ok":
				u.wire = wire
			case "wrong-hash":
				u.wire = vlib.ZstdEncode(flip(d, 100))
			case "garbage":
				u.wire = vlib.Bytes("garbage", 5000, false)
			case "truncated":
				u.wire = wire[:len(wire)/2]
			case "trailing":
				u.wire = append(append([]byte(nil), wire...), 1, 2, 3)
			case "abort":
				u.wire = wire
				u.abortAfter = 1
				if path == "http_zstd" {
					u.abortAfter = len(wire) / 2
				}
			}
			f.upload(u)
			f.settle()
		}
	}
	rd := func(path string, abort bool) func() {
		return func() {
			if !abort {
				f.read(path, sh, int64(len(stored)), 0, 0)
				return
			}
			switch path {
			case "bs", "bs_zstd":
				name := fmt.Sprintf("blobs/%s/%d", sh, len(stored))
				if path == "bs_zstd" {
					name = fmt.Sprintf("compressed-blobs/zstd/%s/%d", sh, len(stored))
				}
				ctx, cancel := context.WithCancel(context.Background())
				st, err := f.bs.Read(ctx, &bytestream.ReadRequest{ResourceName: name, ReadOffset: 1})
				if err == nil {
					_, _ = st.Recv()
				}
				cancel()
			default:
				req, _ := http.NewRequest(http.MethodGet, srv.URL+"/cas/"+sh, nil)
				if path == "http_zstd" {
					req.Header.Set("Accept-Encoding", "zstd")
				}
				tr := &http.Transport{DisableCompression: true}
				resp, err := tr.RoundTrip(req)
				if err == nil {
					buf := make([]byte, 1000)
					_, _ = io.ReadFull(resp.Body, buf)
					_ = resp.Body.Close()
				}
				tr.CloseIdleConnections()
			}
			f.settle()
		}
	}
	var classes []class
	for _, path := range []string{"bs_zstd", "http_zstd", "batch_zstd"} {
		for _, how := range []string{"ok", "wrong-hash", "garbage", "truncated", "trailing", "abort"} {
			if how == "abort" && path == "batch_zstd" {
				continue
			}
			classes = append(classes, class{"upload " + path + " " + how, up(path, how)})
		}
	}
	for _, path := range []string{"bs", "bs_zstd", "http", "http_zstd", "batch", "batch_zstd"} {
		classes = append(classes, class{"download " + path + " complete", rd(path, false)})
		if path != "batch" && path != "batch_zstd" {
			classes = append(classes, class{"download " + path + " abandoned", rd(path, true)})
		}
	}
	pools := map[string]*sync.Pool{"decoder": zstdpool.GetDecoderPool(), "encoder": zstdpool.GetEncoderPool()}
	for _, c := range classes {
		rep.Eval()
		const reps = 3
		for i := 0; i < reps; i++ {
			c.run()
		}
		f.settle()
		waitFor(func() bool { g, _ := handlerGoroutines(); return g == 0 && f.active.Load() == 0 })
		for pn, p := range pools {
			if dups, first := poolDuplicates(p, 64); dups > 0 {
				rep.Violate(prop+" shared "+pn+" pool holds an object twice after "+c.name,
					fmt.Sprintf("mode=%s: after %d x [%s] the zstd %s pool returned the same object (%s) to two Get calls (%d repeats among 64 draws): two later requests would share it", mode, reps, c.name, pn, first, dups), nil)
			}
		}
		rep.Nontrivial(c.name)
		rep.Outcome(c.name)
	}
	for _, p := range f.takePanics() {
		rep.Violate("C14 handler panic during C07 pools", p, nil)
	}
	rep.Sample(map[string]interface{}{"classes": len(classes), "pools": []string{"decoder", "encoder"}, "example": classes[0].name})
}
