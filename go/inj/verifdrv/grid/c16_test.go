package grid

// C16: ByteStream.Write / QueryWriteStatus protocol. Every composition of a
// small payload into messages (empty messages included), finish_write
// placement, resource-name handling on later messages, first write_offset,
// declared size, blob present/absent, identity and zstd uploads.

import (
	"context"
	"fmt"
	"github.com/buchgr/bazel-remote/v2/cache"
	"strings"
	"testing"

	"google.golang.org/genproto/googleapis/bytestream"
	"google.golang.org/grpc/codes"
	"google.golang.org/grpc/status"

	"github.com/buchgr/bazel-remote/v2/verifdrv/vlib"
)

type c16Msg struct {
	data   []byte
	name   string // "" omitted
	offset int64
	finish bool
}

type c16Res struct {
	ok        bool
	code      codes.Code
	committed int64
}

func (f *fx) bsWrite(msgs []c16Msg, closeSend bool) c16Res {
	ctx, cancel := ctxT()
	defer cancel()
	st, err := f.bs.Write(ctx)
	if err != nil {
		return c16Res{code: status.Code(err)}
	}
	for _, m := range msgs {
		if err := st.Send(&bytestream.WriteRequest{ResourceName: m.name, WriteOffset: m.offset, FinishWrite: m.finish, Data: m.data}); err != nil {
			break
		}
	}
	if !closeSend {
		// the client does NOT half-close: it sent what the protocol requires (finish_write, or
		// enough for an early return) and now waits for the answer
		var resp bytestream.WriteResponse
		if err := st.RecvMsg(&resp); err != nil {
			return c16Res{code: status.Code(err)}
		}
		return c16Res{ok: true, code: codes.OK, committed: resp.CommittedSize}
	}
	resp, err := st.CloseAndRecv()
	if err != nil {
		return c16Res{code: status.Code(err)}
	}
	return c16Res{ok: true, code: codes.OK, committed: resp.CommittedSize}
}

func compositions(total, parts int) [][]int {
	if parts == 1 {
		return [][]int{{total}}
	}
	var out [][]int
	for first := 0; first <= total; first++ {
		for _, rest := range compositions(total-first, parts-1) {
			out = append(out, append([]int{first}, rest...))
		}
	}
	return out
}

func (f *fx) queryWrite(name string) (complete bool, size int64, code codes.Code) {
	ctx, cancel := ctxT()
	defer cancel()
	r, err := f.bs.QueryWriteStatus(ctx, &bytestream.QueryWriteStatusRequest{ResourceName: name})
	if err != nil {
		return false, 0, status.Code(err)
	}
	return r.Complete, r.CommittedSize, codes.OK
}

var c16Ctr int

func TestC16(t *testing.T) {
	mode := vlib.Param("MODE", "zstd")
	rep := vlib.NewReport("C16", "E4:protocol/"+mode)
	defer rep.Write()
	f := newFx(fxOpts{mode: mode, validateAC: true})
	defer f.close()
	shard, nshards := vlib.Shard()

	type variant struct {
		name       string
		zstd       bool
		present    bool
		finish     string // last, none, early
		laterName  string // omit, repeat, change
		firstOff   int64
		sizeDelta  int64
		nameShape  string // plain, instance, metadata, instance+metadata, missing-uuid, garbage, bad-size
		wellFormed bool
	}
	maxParts := 4
	if vlib.Thorough() {
		maxParts = 5
	}
	cell := 0
	runCell := func(v variant, comp []int) {
		cell++
		if cell%nshards != shard {
			return
		}
		rep.Eval()
		c16Ctr++
		n := 0
		for _, c := range comp {
			n += c
		}
		content := vlib.Bytes(fmt.Sprintf("c16/%s/%d", mode, c16Ctr), n, false)
		hash := vlib.Sha(content)
		wire := content
		if v.zstd {
			wire = vlib.ZstdEncode(content)
			// re-split the wire bytes proportionally into the same number of messages
			total := len(wire)
			nc := make([]int, len(comp))
			used := 0
			for i := range comp {
				if i == len(comp)-1 {
					nc[i] = total - used
				} else if n > 0 {
					nc[i] = comp[i] * total / n
				}
				used += nc[i]
			}
			comp = nc
		}
		declared := int64(n) + v.sizeDelta
		kind := "blobs"
		if v.zstd {
			kind = "compressed-blobs/zstd"
		}
		base := fmt.Sprintf("uploads/%s/%s/%s/%d", nextUUID(), kind, hash, declared)
		name := base
		switch v.nameShape {
		case "instance":
			name = "my/instance/" + base
		case "instance-ci-uploads":
			name = "ci-uploads/" + base
		case "instance-myuploads/main":
			name = "team/myuploads/main/" + base
		case "instance-xblobs":
			name = "xblobs/compressed-blobsy/" + base
		case "instance-unicode":
			name = "büro/コード/" + base
		case "metadata":
			name = base + "/some/metadata"
		case "instance+metadata":
			name = "inst/" + base + "/meta"
		case "missing-uuid":
			name = fmt.Sprintf("uploads/%s/%s/%d", kind, hash, declared)
		case "garbage":
			name = "not a resource name"
		case "bad-size":
			name = fmt.Sprintf("uploads/%s/%s/%s/abc", nextUUID(), kind, hash)
		}
		if v.present {
			if r := f.upload(upReq{path: "batch", hash: hash, size: int64(n), wire: content, abortAfter: -1}); !r.ok {
				rep.BrokenHarness("pre-upload failed: %s", r.status)
				return
			}
		}
		var msgs []c16Msg
		off := int64(0)
		pos := 0
		early := -1
		if v.finish == "early" && len(comp) > 1 {
			early = 0
		}
		for i, c := range comp {
			m := c16Msg{data: wire[pos : pos+c], offset: off}
			pos += c
			off += int64(c)
			if i == 0 {
				m.name = name
				m.offset = v.firstOff
			} else {
				switch v.laterName {
				case "repeat":
					m.name = name
				case "change":
					if i == len(comp)-1 {
						m.name = strings.Replace(name, hash, vlib.Sha([]byte("another")), 1)
						if m.name == name {
							m.name = name + "x"
						}
					}
				}
			}
			if (v.finish == "last" && i == len(comp)-1) || i == early {
				m.finish = true
			}
			msgs = append(msgs, m)
		}
		res := f.bsWrite(msgs, true)
		f.settle()
		fm, _, _ := f.present(hash, int64(n))
		id := fmt.Sprintf("mode=%s variant=%s messages=%v -> ok=%v code=%s committed=%d present_after=%v", mode, v.name, comp, res.ok, res.code, res.committed, fm)
		key := "C16 " + v.name
		replay := map[string]interface{}{"cell": id, "resource_name": name}
		parsable := v.nameShape != "missing-uuid" && v.nameShape != "garbage" && v.nameShape != "bad-size"
		// expected outcome
		switch {
		case !parsable:
			if res.ok {
				rep.Violate(key+" unparsable resource name accepted", id, replay)
			}
			if fm && !v.present {
				rep.Violate(key+" failed call stored the blob", id, replay)
			}
		case v.present && v.sizeDelta == 0:
			// early return: size for blobs/, -1 for compressed-blobs/
			want := int64(n)
			if v.zstd {
				want = -1
			}
			if !res.ok {
				rep.Violate(key+" upload of an existing blob failed", id, replay)
			} else if res.committed != want {
				rep.Violate(key+" wrong committed_size for an existing blob", fmt.Sprintf("%s (expected %d)", id, want), replay)
			}
			if !fm {
				rep.Violate(key+" existing blob vanished", id, replay)
			}
		default:
			sentAll := true
			if early >= 0 {
				// finish_write on the first of several messages: the server
				// stops there; the call is well formed only if that message
				// already carried everything
				sentAll = comp[0] == len(wire)
			}
			wf := v.firstOff == 0 && v.laterName != "change" && v.sizeDelta == 0 && sentAll
			if v.laterName == "change" && (len(comp) == 1 || early >= 0) {
				// the changed name is never sent / never read
				wf = v.firstOff == 0 && v.sizeDelta == 0 && sentAll
			}
			if v.present {
				// present under the true size, but another size was declared: a different digest
				wf = false
			}
			if wf {
				want := int64(len(wire))
				if !res.ok {
					rep.Violate(key+" well-formed upload failed", id, replay)
				} else {
					if early >= 0 {
						want = int64(comp[0])
					}
					if res.committed != want {
						rep.Violate(key+" committed_size is not the number of payload bytes sent", fmt.Sprintf("%s (expected %d)", id, want), replay)
					}
					if !fm {
						rep.Violate(key+" acknowledged upload not present", id, replay)
					}
				}
			} else {
				if res.ok {
					rep.Violate(key+" malformed stream acknowledged", id, replay)
				}
				if fm && !v.present {
					rep.Violate(key+" failed call stored the blob", id, replay)
				}
			}
		}
		// QueryWriteStatus: complete with the full size exactly when present
		if parsable {
			q := fmt.Sprintf("uploads/%s/%s/%s/%d", nextUUID(), kind, hash, n)
			if v.nameShape == "instance" || v.nameShape == "instance+metadata" {
				q = "some/instance/" + q
			}
			if strings.HasPrefix(v.nameShape, "instance-") {
				// the same instance-name shape for the status query
				q = name[:strings.Index(name, "uploads/0")] + q
			}
			complete, sz, code := f.queryWrite(q)
			if code != codes.OK || complete != fm || (fm && sz != int64(n)) || (!fm && sz != 0) {
				rep.Violate(key+" QueryWriteStatus disagrees with presence", fmt.Sprintf("%s: QueryWriteStatus -> complete=%v size=%d code=%s", id, complete, sz, code), replay)
			}
		}
		rep.Nontrivial(v.name + fmt.Sprint(comp))
		rep.Outcome(fmt.Sprintf("%s ok=%v", v.name, res.ok))
	}

	var variants []variant
	for _, z := range []bool{false, true} {
		zn := "identity"
		if z {
			zn = "zstd"
		}
		for _, present := range []bool{false, true} {
			for _, fin := range []string{"last", "none", "early"} {
				for _, ln := range []string{"omit", "repeat", "change"} {
					for _, fo := range []int64{0, 1} {
						for _, sd := range []int64{0, -1, 1} {
							variants = append(variants, variant{name: fmt.Sprintf("%s present=%v finish=%s later_name=%s first_offset=%d size%+d", zn, present, fin, ln, fo, sd),
								zstd: z, present: present, finish: fin, laterName: ln, firstOff: fo, sizeDelta: sd, nameShape: "plain"})
						}
					}
				}
			}
			for _, ns := range []string{"instance", "instance-ci-uploads", "instance-myuploads/main", "instance-xblobs", "instance-unicode", "metadata", "instance+metadata", "missing-uuid", "garbage", "bad-size"} {
				variants = append(variants, variant{name: fmt.Sprintf("%s present=%v name=%s", zn, present, ns), zstd: z, present: present, finish: "last", laterName: "omit", nameShape: ns})
			}
		}
	}
	for _, v := range variants {
		baseline := v.finish == "last" && v.laterName == "omit" && v.firstOff == 0 && v.sizeDelta == 0 && v.nameShape == "plain"
		for parts := 1; parts <= maxParts; parts++ {
			comps := compositions(6, parts)
			for ci, comp := range comps {
				// all compositions for the base variants; for deviating variants a spread of them
				if !baseline && !(ci == 0 || ci == len(comps)-1 || ci == len(comps)/2 || parts <= 2) {
					continue
				}
				runCell(v, comp)
			}
		}
	}
	if shard == 0 {
		c16NoHalfClose(rep, f, mode)
		c16Backend(rep, mode)
	}
	for _, p := range f.takePanics() {
		rep.Violate("C14 handler panic during C16", p, nil)
	}
	for _, p := range f.invariants() {
		rep.Violate("C16 cache inconsistent "+genericKey(p), p, nil)
	}
	rep.Sample(map[string]interface{}{"variants": len(variants), "compositions_of_6_into_up_to": maxParts, "example": variants[0].name})
	_ = context.Background
}

// c16Backend: the blob exists only in a proxy backend, which reports its size
// exactly or as unknown (-1, as the HTTP backend does for compressed storage).
// The cache may treat that as "already exists" (early return: blob size for
// blobs/, -1 for compressed-blobs/) or take the complete upload (committed =
// bytes sent); either way the answer must be one of the two the protocol
// allows and the blob must be present afterwards.
func c16Backend(rep *vlib.Report, mode string) {
	px := vlib.NewFakeProxy()
	f := newFx(fxOpts{mode: mode, validateAC: true, proxy: px})
	defer f.close()
	for _, z := range []bool{false, true} {
		for _, report := range []string{"exact", "unknown"} {
			for parts := 1; parts <= 3; parts++ {
				for _, comp := range compositions(6, parts) {
					for _, complete := range []bool{true, false} {
						if !complete && len(comp) == 1 {
							continue
						}
						rep.Eval()
						c16Ctr++
						content := vlib.Bytes(fmt.Sprintf("c16/backend/%s/%d", mode, c16Ctr), 6, false)
						hash := vlib.Sha(content)
						st := content
						if mode == "zstd" {
							st = vlib.EncodeCasBlob(content, 1<<20, true)
						}
						px.Set(cache.CAS, hash, st, 6)
						if report == "unknown" {
							px.ContainsFault["cas/"+hash] = &vlib.ContainsFault{Answer: true, Size: -1, Sticky: true}
						}
						wire, kind := content, "blobs"
						cc := comp
						if z {
							wire, kind = vlib.ZstdEncode(content), "compressed-blobs/zstd"
							cc = make([]int, len(comp))
							used := 0
							for i := range comp {
								if i == len(comp)-1 {
									cc[i] = len(wire) - used
								} else {
									cc[i] = comp[i] * len(wire) / 6
								}
								used += cc[i]
							}
						}
						name := fmt.Sprintf("uploads/%s/%s/%s/6", nextUUID(), kind, hash)
						var msgs []c16Msg
						pos := 0
						for i, c := range cc {
							m := c16Msg{data: wire[pos : pos+c], offset: int64(pos)}
							if i == 0 {
								m.name = name
							}
							pos += c
							msgs = append(msgs, m)
						}
						if complete {
							msgs[len(msgs)-1].finish = true
						} else {
							msgs = msgs[:1] // only the first message, no finish_write: legal only as an early return
						}
						res := f.bsWrite(msgs, true)
						f.settle()
						fm, _, _ := f.present(hash, 6)
						id := fmt.Sprintf("mode=%s backend-only blob, backend reports size %s, %s upload messages=%v complete=%v -> ok=%v code=%s committed=%d present_after=%v", mode, report, kind, cc, complete, res.ok, res.code, res.committed, fm)
						key := fmt.Sprintf("C16 backend-only blob (%s size) %s", report, kind)
						early, full := int64(6), int64(len(wire))
						if z {
							early = -1
						}
						switch {
						case res.ok && complete && res.committed != early && res.committed != full:
							rep.Violate(key+" committed_size is neither the early-return value nor the bytes sent", fmt.Sprintf("%s (allowed: %d or %d)", id, early, full), nil)
						case res.ok && !complete && res.committed != early:
							rep.Violate(key+" incomplete stream acknowledged with a committed_size other than the early-return value", fmt.Sprintf("%s (allowed: %d)", id, early), nil)
						case res.ok && !fm:
							rep.Violate(key+" acknowledged but not present", id, nil)
						case !res.ok && complete:
							rep.Violate(key+" complete well-formed upload failed", id, nil)
						default:
							rep.Nontrivial(fmt.Sprintf("backend %v %s %v %v", z, report, cc, complete))
						}
					}
				}
			}
		}
	}
	for _, p := range f.takePanics() {
		rep.Violate("C14 handler panic during C16 (backend)", p, nil)
	}
}

// c16NoHalfClose: the client does not half-close the stream. (a) finish_write on the last
// message ends the upload: the server must answer (all compositions into <=3 messages, identity
// and zstd, blob absent / present); (b) the blob already exists: the server answers after the
// first message, "without requiring the rest of the stream" (no finish_write, nothing more sent).
func c16NoHalfClose(rep *vlib.Report, f *fx, mode string) {
	hung := false
	for _, z := range []bool{false, true} {
		for _, present := range []bool{false, true} {
			for parts := 1; parts <= 3 && !hung; parts++ {
				for _, comp := range compositions(6, parts) {
					for _, firstOnly := range []bool{false, true} {
						if firstOnly && !present {
							continue // an absent blob needs the whole stream
						}
						if hung {
							break
						}
						rep.Eval()
						c16Ctr++
						content := vlib.Bytes(fmt.Sprintf("c16/nohalfclose/%s/%d", mode, c16Ctr), 6, false)
						hash := vlib.Sha(content)
						wire, kind := content, "blobs"
						cc := comp
						if z {
							wire, kind = vlib.ZstdEncode(content), "compressed-blobs/zstd"
							cc = make([]int, len(comp))
							used := 0
							for i := range comp {
								if i == len(comp)-1 {
									cc[i] = len(wire) - used
								} else {
									cc[i] = comp[i] * len(wire) / 6
								}
								used += cc[i]
							}
						}
						if present {
							if r := f.upload(upReq{path: "batch", hash: hash, size: 6, wire: content, abortAfter: -1}); !r.ok {
								rep.BrokenHarness("pre-upload failed: %s", r.status)
								return
							}
						}
						name := fmt.Sprintf("uploads/%s/%s/%s/6", nextUUID(), kind, hash)
						var msgs []c16Msg
						pos := 0
						for i, c := range cc {
							m := c16Msg{data: wire[pos : pos+c], offset: int64(pos)}
							if i == 0 {
								m.name = name
							}
							pos += c
							msgs = append(msgs, m)
						}
						if firstOnly {
							msgs = msgs[:1]
						} else {
							msgs[len(msgs)-1].finish = true
						}
						res := f.bsWrite(msgs, false)
						f.settle()
						fm, _, _ := f.present(hash, 6)
						id := fmt.Sprintf("mode=%s %s present=%v messages=%v first_message_only=%v, client does not half-close -> ok=%v code=%s committed=%d present_after=%v", mode, kind, present, cc, firstOnly, res.ok, res.code, res.committed, fm)
						key := fmt.Sprintf("C16 no half-close %s present=%v first_only=%v", kind, present, firstOnly)
						want := int64(len(wire))
						if present {
							want = 6
							if z {
								want = -1
							}
						}
						switch {
						case res.code == codes.DeadlineExceeded:
							hung = true
							rep.Violate(key+" no answer although the protocol needs nothing more from the client", id, nil)
						case !res.ok:
							rep.Violate(key+" upload failed", id, nil)
						case res.committed != want && !(present && !firstOnly && res.committed == int64(len(wire))):
							rep.Violate(key+" wrong committed_size", fmt.Sprintf("%s (expected %d)", id, want), nil)
						case !fm:
							rep.Violate(key+" acknowledged but not present", id, nil)
						default:
							rep.Nontrivial(fmt.Sprintf("nohalfclose %v %v %v %v", z, present, cc, firstOnly))
						}
					}
				}
			}
		}
	}
}
