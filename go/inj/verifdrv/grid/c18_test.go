package grid

// C18: no item whose logical size exceeds max_blob_size is accepted through
// any write path (client error, nothing stored), items of exactly the limit
// are accepted, GetCapabilities advertises the same limit; no object larger
// than max_proxy_blob_size is served, cached or reported present from the
// backend.

import (
	"bytes"
	"context"
	"fmt"
	"net/http"
	"net/http/httptest"
	"strings"
	"testing"

	"google.golang.org/protobuf/proto"

	"github.com/buchgr/bazel-remote/v2/cache"
	"github.com/buchgr/bazel-remote/v2/cache/disk"
	pb "github.com/buchgr/bazel-remote/v2/genproto/build/bazel/remote/execution/v2"
	"github.com/buchgr/bazel-remote/v2/verifdrv/vlib"
)

var clientErrors = map[string]bool{"400": true, "413": true, "InvalidArgument": true, "OutOfRange": true, "FailedPrecondition": true, "NotFound": true}

func TestC18(t *testing.T) {
	mode := vlib.Param("MODE", "zstd")
	rep := vlib.NewReport("C18", "E4:max_blob_size/"+mode)
	defer rep.Write()
	limits := []int64{1, 4096, 1 << 20}
	if vlib.Thorough() {
		limits = []int64{1, 2, 100, 4095, 4096, 4097, 65536, 1<<20 - 1, 1 << 20, 1<<20 + 1, 2<<20 + 1}
	}
	shard, nshards := vlib.Shard()
	for li, L := range limits {
		if li%nshards != shard {
			continue
		}
		f := newFx(fxOpts{mode: mode, maxBlob: L, validateAC: true, asset: true})
		ctx, cancel := ctxT()
		caps, err := f.caps.GetCapabilities(ctx, &pb.GetCapabilitiesRequest{})
		cancel()
		rep.Eval()
		if err != nil || caps.GetCacheCapabilities().GetMaxCasBlobSizeBytes() != L {
			rep.Violate("C18 GetCapabilities does not advertise max_blob_size", fmt.Sprintf("mode=%s limit=%d: advertised %d (err %v)", mode, L, caps.GetCacheCapabilities().GetMaxCasBlobSizeBytes(), err), nil)
		}
		sizes := []int64{L - 1, L, L + 1, 4 * L}
		if vlib.Thorough() {
			sizes = []int64{1, L / 2, L - 1, L, L + 1, L + 2, 2 * L, 4*L + 1}
		}
		seenSize := map[int64]bool{}
		for _, path := range writePaths {
			for k := range seenSize {
				delete(seenSize, k)
			}
			for _, n := range sizes {
				if n <= 0 || seenSize[n] {
					continue
				}
				seenSize[n] = true
				for _, kind := range []string{"random", "zeros"} {
					if kind == "zeros" && n < 64 {
						continue
					}
					rep.Eval()
					tag := fmt.Sprintf("c18/%s/%d/%s/%d/%s", mode, L, path, n, kind)
					var content []byte
					if kind == "zeros" {
						// highly compressible: the transport size is far below the logical size
						content = vlib.Zeros(int(n))
						copy(content[n-24:], vlib.Bytes(tag, 24, false))
					} else if n == 1 {
						content = []byte{byte(len(path)*7 + int(L%251))}
					} else {
						content = vlib.Bytes(tag, int(n), false)
					}
					wire := content
					if pathIsZstd(path) {
						wire = vlib.ZstdEncode(content)
					}
					u := upReq{path: path, hash: vlib.Sha(content), size: n, wire: wire, abortAfter: -1}
					if strings.HasPrefix(path, "splice") {
						a, b := int(n)/2, int(n)
						if a == 0 {
							u.chunks = [][]byte{content}
						} else {
							u.chunks = [][]byte{content[:a], content[a:b]}
						}
					}
					res := f.upload(u)
					f.settle()
					fm, _, _ := f.present(vlib.Sha(content), n)
					id := fmt.Sprintf("mode=%s max_blob_size=%d path=%s size=%d content=%s -> %s present=%v", mode, L, path, n, kind, res.status, fm)
					key := fmt.Sprintf("C18 path=%s size-vs-limit=%s", path, cmpClass(n, L))
					replay := map[string]interface{}{"cell": id}
					if strings.HasPrefix(path, "ac_") && n <= L && n+256 > L {
						// the ActionResult that carries the blob is an item too and
						// is itself larger than the limit here: either answer
						rep.Skip("ActionResult carrying the inlined blob exceeds the limit itself")
						continue
					}
					if n <= L {
						if !res.ok || !fm {
							rep.Violate(key+" item within the limit refused", id, replay)
						} else {
							rep.Nontrivial(id)
						}
						continue
					}
					if strings.HasPrefix(path, "splice") {
						// the chunks themselves must be uploadable: n/2 <= L only for n = L+1 (L>1)
						if int64(len(u.chunks[len(u.chunks)-1])) > L || int64(len(u.chunks[0])) > L {
							rep.Skip("splice chunks exceed the limit themselves")
							continue
						}
					}
					if res.ok {
						rep.Violate(key+" oversize item accepted", id, replay)
						continue
					}
					if !clientErrors[res.status] && !strings.HasPrefix(res.status, "chunk upload failed") {
						rep.Violate(key+" oversize item refused with a non-client error", id, replay)
					}
					if fm || len(f.filesFor(vlib.Sha(content))) > 0 {
						rep.Violate(key+" oversize item stored", id, replay)
					}
					if res.acKey != "" {
						// nothing is stored: the refused ActionResult that carried the blob is not served either
						ctx, cancel := ctxT()
						_, gerr := f.ac.GetActionResult(ctx, &pb.GetActionResultRequest{ActionDigest: &pb.Digest{Hash: res.acKey, SizeBytes: 42}})
						cancel()
						if gerr == nil || len(f.filesFor(res.acKey)) > 0 {
							rep.Violate(key+" refused upload left its ActionResult behind", fmt.Sprintf("%s: GetActionResult err=%v files=%v", id, gerr, f.filesFor(res.acKey)), replay)
						}
					}
					rep.Nontrivial(id)
					rep.Outcome(path + " " + cmpClass(n, L) + " -> " + res.status)
				}
			}
		}
		c18ActionEntries(rep, f, mode, L)
		if L >= 4096 && L <= 1<<20 {
			c18PresentBefore(rep, mode, L)
		}
		for _, p := range f.invariants() {
			rep.Violate("C18 cache inconsistent "+genericKey(p), p, nil)
		}
		for _, p := range f.takePanics() {
			rep.Violate("C14 handler panic during C18", p, nil)
		}
		f.close()
	}
	rep.Sample(map[string]interface{}{"limits": limits, "sizes": "L-1, L, L+1, 4L", "paths": writePaths})
}

// c18ActionEntries: the action-cache entry itself is an item: an ActionResult
// whose serialised size is L-1, L, L+1, 4L (padded through the worker name),
// through gRPC UpdateActionResult and HTTP PUT /ac (protobuf).
func c18ActionEntries(rep *vlib.Report, f *fx, mode string, L int64) {
	if L < 64 {
		return
	}
	for _, front := range []string{"grpc", "http"} {
		for _, n := range []int64{L - 1, L, L + 1, 4 * L} {
			rep.Eval()
			ar := &pb.ActionResult{ExitCode: 7, ExecutionMetadata: &pb.ExecutedActionMetadata{Worker: "w"}}
			// pad the worker name until the serialised message has exactly n bytes
			pad := int(n) - proto.Size(ar)
			for tries := 0; tries < 8 && pad != 0; tries++ {
				cur := len(ar.ExecutionMetadata.Worker)
				if cur+pad < 1 {
					break
				}
				ar.ExecutionMetadata.Worker = strings.Repeat("w", cur+pad)
				pad = int(n) - proto.Size(ar)
			}
			if int64(proto.Size(ar)) != n {
				rep.Skip(fmt.Sprintf("cannot build an ActionResult of exactly %d bytes", n))
				continue
			}
			key := vlib.Sha([]byte(fmt.Sprintf("c18/action/%s/%d/%s/%d", mode, L, front, n)))
			var ok bool
			var st string
			if front == "grpc" {
				ctx, cancel := ctxT()
				_, err := f.ac.UpdateActionResult(ctx, &pb.UpdateActionResultRequest{ActionDigest: &pb.Digest{Hash: key, SizeBytes: 42}, ActionResult: ar})
				cancel()
				ok, st = err == nil, grpcStatus(err)
			} else {
				b, _ := proto.Marshal(ar)
				rec := f.httpDo(httptest.NewRequest(http.MethodPut, "/ac/"+key, bytes.NewReader(b)))
				ok, st = rec.Code == 200, fmt.Sprint(rec.Code)
			}
			f.settle()
			ctx, cancel := ctxT()
			_, gerr := f.ac.GetActionResult(ctx, &pb.GetActionResultRequest{ActionDigest: &pb.Digest{Hash: key, SizeBytes: 42}})
			cancel()
			id := fmt.Sprintf("mode=%s max_blob_size=%d action-cache entry of %d bytes via %s -> %s, served afterwards=%v", mode, L, n, front, st, gerr == nil)
			k := fmt.Sprintf("C18 action-cache entry via %s size-vs-limit=%s", front, cmpClass(n, L))
			switch {
			case n <= L && (!ok || gerr != nil):
				rep.Violate(k+" item within the limit refused", id, nil)
			case n > L && ok:
				rep.Violate(k+" oversize item accepted", id, nil)
			case n > L && !clientErrors[st]:
				rep.Violate(k+" oversize item refused with a non-client error", id, nil)
			case n > L && (gerr == nil || len(f.filesFor(key)) > 0):
				rep.Violate(k+" oversize item stored", id, nil)
			default:
				rep.Nontrivial(id)
			}
		}
	}
}

// c18PresentBefore: the oversize blob is ALREADY in the cache (the directory was filled
// under a larger limit, then the server restarted with max_blob_size L): an upload of it is
// still an item over the limit and is refused with a client error on every CAS write path.
func c18PresentBefore(rep *vlib.Report, mode string, L int64) {
	f0 := newFx(fxOpts{mode: mode, validateAC: true, keepDir: true})
	type item struct {
		path    string
		n       int64
		content []byte
	}
	var items []item
	for _, path := range []string{"http", "http_zstd", "batch", "batch_zstd", "bs", "bs_zstd", "splice", "splice_nodigest"} {
		for _, n := range []int64{L + 1, 4 * L} {
			if strings.HasPrefix(path, "splice") && n != L+1 {
				continue // the chunks must be within the limit themselves
			}
			c := vlib.Bytes(fmt.Sprintf("c18/present-before/%s/%d/%s/%d", mode, L, path, n), int(n), false)
			if r := f0.upload(upReq{path: "bs", hash: vlib.Sha(c), size: n, wire: c, abortAfter: -1}); !r.ok {
				rep.BrokenHarness("populating the directory: %s", r.status)
				f0.close()
				return
			}
			items = append(items, item{path, n, c})
		}
	}
	f0.settle()
	dir := f0.dir
	f0.close()
	f := newFx(fxOpts{mode: mode, maxBlob: L, validateAC: true, dir: dir})
	defer f.close()
	for _, it := range items {
		rep.Eval()
		wire := it.content
		if pathIsZstd(it.path) {
			wire = vlib.ZstdEncode(it.content)
		}
		u := upReq{path: it.path, hash: vlib.Sha(it.content), size: it.n, wire: wire, abortAfter: -1}
		if strings.HasPrefix(it.path, "splice") {
			a := int(it.n) / 2
			u.chunks = [][]byte{it.content[:a], it.content[a:]}
		}
		res := f.upload(u)
		f.settle()
		id := fmt.Sprintf("mode=%s max_blob_size=%d path=%s size=%d, blob already present (stored under a larger limit) -> %s", mode, L, it.path, it.n, res.status)
		key := fmt.Sprintf("C18 path=%s size-vs-limit=%s blob-already-present", it.path, cmpClass(it.n, L))
		switch {
		case res.ok:
			rep.Violate(key+" oversize item accepted", id, nil)
		case !clientErrors[res.status] && !strings.HasPrefix(res.status, "chunk upload failed"):
			rep.Violate(key+" oversize item refused with a non-client error", id, nil)
		default:
			rep.Nontrivial(id)
		}
	}
	for _, p := range f.takePanics() {
		rep.Violate("C14 handler panic during C18", p, nil)
	}
}

func cmpClass(n, L int64) string {
	switch {
	case n < L:
		return "below"
	case n == L:
		return "equal"
	case n == L+1:
		return "limit+1"
	}
	return "far-above"
}

// TestC18Proxy: max_proxy_blob_size on every backend-read path.
func TestC18Proxy(t *testing.T) {
	mode := vlib.Param("MODE", "zstd")
	rep := vlib.NewReport("C18", "E4:max_proxy_blob_size/"+mode)
	defer rep.Write()
	ps := []int64{100, 4096}
	ns := func(P int64) []int64 { return []int64{P - 1, P, P + 1, 2 * P} }
	if vlib.Thorough() {
		ps = []int64{1, 100, 4095, 4096, 4097, 1 << 20}
		ns = func(P int64) []int64 {
			out := []int64{}
			for _, n := range []int64{1, P / 2, P - 1, P, P + 1, P + 2, 2 * P, 4*P + 1} {
				dup := n <= 0
				for _, o := range out {
					dup = dup || o == n
				}
				if !dup {
					out = append(out, n)
				}
			}
			return out
		}
	}
	for _, P := range ps {
		for _, n := range ns(P) {
			// content: incompressible, and compressible (in zstd mode the stored object of an
			// oversize blob is then SMALLER than the limit: the limit is on the logical size)
			for _, op := range []string{"get-known", "get-unknown", "getzstd-known", "contains-known", "contains-unknown", "findmissing", "ac-dependency",
				"get-known/compressible", "get-unknown/compressible", "getzstd-known/compressible", "contains-unknown/compressible", "ac-dependency/compressible"} {
				rep.Eval()
				px := vlib.NewFakeProxy()
				f := newFx(fxOpts{mode: mode, maxProxy: P, proxy: px, validateAC: true})
				compressible := strings.HasSuffix(op, "/compressible")
				opName := op
				op = strings.TrimSuffix(op, "/compressible")
				content := vlib.Bytes(fmt.Sprintf("c18p/%s/%d/%d/%s", mode, P, n, opName), int(n), compressible)
				h := vlib.Sha(content)
				st := content
				if mode == "zstd" {
					st = vlib.EncodeCasBlob(content, 1<<20, true)
				}
				px.Set(cache.CAS, h, st, n)
				ctx := context.Background()
				served, present := false, false
				switch op {
				case "get-known", "get-unknown", "getzstd-known":
					size := n
					if op == "get-unknown" {
						size = -1
					}
					var got []byte
					if op == "getzstd-known" {
						rc, _, _ := f.cache.GetZstd(ctx, h, size, 0)
						if rc != nil {
							got, _ = vlib.ZstdDecodeAll(readAllClose(rc))
						}
					} else {
						rc, _, _ := f.cache.Get(ctx, cache.CAS, h, size, 0)
						if rc != nil {
							got = readAllClose(rc)
						}
					}
					served = bytes.Equal(got, content) && len(got) > 0
				case "contains-known":
					present, _ = f.cache.Contains(ctx, cache.CAS, h, n)
				case "contains-unknown":
					present, _ = f.cache.Contains(ctx, cache.CAS, h, -1)
				case "findmissing":
					c2, cancel := ctxT()
					resp, err := f.cas.FindMissingBlobs(c2, &pb.FindMissingBlobsRequest{BlobDigests: []*pb.Digest{{Hash: h, SizeBytes: n}}})
					cancel()
					present = err == nil && len(resp.MissingBlobDigests) == 0
				case "ac-dependency":
					ar := &pb.ActionResult{StdoutDigest: &pb.Digest{Hash: h, SizeBytes: n}}
					data, _ := proto.Marshal(ar)
					key := vlib.Sha([]byte("c18 ac " + h))
					_ = f.cache.Put(ctx, cache.AC, key, int64(len(data)), bytes.NewReader(data))
					res, _, _ := f.cache.GetValidatedActionResult(ctx, key)
					present = res != nil
				}
				f.settle()
				_, _, _, calls := px.Snapshot()
				asked := false
				for _, c := range calls {
					if (strings.HasPrefix(c, "get ") || strings.HasPrefix(c, "contains ")) && strings.Contains(c, "cas/"+h[:6]) {
						asked = true
					}
				}
				cached := false
				for _, e := range disk.VfSnapshot(f.cache).Entries {
					if e.Key == "cas/"+h {
						cached = true
					}
				}
				id := fmt.Sprintf("mode=%s max_proxy_blob_size=%d object=%d bytes op=%s -> served=%v present=%v cached=%v backend_asked=%v", mode, P, n, opName, served, present, cached, asked)
				key := fmt.Sprintf("C18 proxy op=%s object-vs-limit=%s", opName, cmpClass(n, P))
				if n <= P {
					ok := served || present
					if !ok {
						rep.Violate(key+" backend object within the limit not used", id, nil)
					} else {
						rep.Nontrivial(id)
					}
				} else {
					if served || present || cached {
						rep.Violate(key+" oversize backend object served, cached or reported present", id, nil)
					} else {
						rep.Nontrivial(id)
					}
					if asked && strings.HasSuffix(op, "known") || asked && (op == "findmissing" || op == "ac-dependency") {
						if !strings.Contains(op, "unknown") {
							rep.Violate(key+" backend asked although the requested size already exceeds the limit", id, nil)
						}
					}
				}
				for _, p := range f.invariants() {
					rep.Violate("C18 proxy cache inconsistent "+genericKey(p), id+": "+p, nil)
				}
				f.close()
			}
		}
	}
	rep.Sample("backend objects of P-1, P, P+1 bytes on Get (size known/unknown, zstd), Contains, FindMissingBlobs and the AC dependency check")
}
