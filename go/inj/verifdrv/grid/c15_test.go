package grid

// C15 (server level): instance-name mangling separates action results; the
// validated and the raw action cache and the CAS are independent.

import (
	"bytes"
	"fmt"
	"net/http"
	"net/http/httptest"
	"net/url"
	"strings"
	"testing"

	"google.golang.org/grpc/codes"
	"google.golang.org/grpc/status"
	"google.golang.org/protobuf/proto"

	pb "github.com/buchgr/bazel-remote/v2/genproto/build/bazel/remote/execution/v2"
	"github.com/buchgr/bazel-remote/v2/verifdrv/vlib"
)

// the last four: long, deeply nested names that agree in their first 63 / 64 / 65 / 100 bytes
var c15Long = "org/department/team/project/subproject/component/module/variant/"

var c15Instances = []string{"", "a", "a/b", "ac", "cas", "x/ac/y", "blobs", "uploads", "ü", "a b", "A", "a/b/c",
	c15Long[:62] + "/x", c15Long[:62] + "/y", c15Long[:63] + "x", c15Long[:63] + "y", c15Long + "x", c15Long + "y",
	c15Long + "deeper/and/deeper/and/deeper/still/1", c15Long + "deeper/and/deeper/and/deeper/still/2"}

func acURL(instance, key string) string {
	if instance == "" {
		return "/ac/" + key
	}
	u := url.URL{Path: "/" + instance + "/ac/" + key}
	return u.EscapedPath()
}

func (f *fx) c15Put(front, instance, key string, exit int32) bool {
	ar := &pb.ActionResult{ExitCode: exit, ExecutionMetadata: &pb.ExecutedActionMetadata{Worker: "w"}}
	if front == "grpc" {
		ctx, cancel := ctxT()
		defer cancel()
		_, err := f.ac.UpdateActionResult(ctx, &pb.UpdateActionResultRequest{InstanceName: instance, ActionDigest: &pb.Digest{Hash: key, SizeBytes: 3}, ActionResult: ar})
		return err == nil
	}
	b, _ := proto.Marshal(ar)
	rec := f.httpDo(httptest.NewRequest(http.MethodPut, acURL(instance, key), bytes.NewReader(b)))
	return rec.Code == 200
}

// c15Get returns the exit code stored for (instance,key) through front, or -1 on a miss, -2 on error.
func (f *fx) c15Get(front, instance, key string) int32 {
	if front == "grpc" {
		ctx, cancel := ctxT()
		defer cancel()
		res, err := f.ac.GetActionResult(ctx, &pb.GetActionResultRequest{InstanceName: instance, ActionDigest: &pb.Digest{Hash: key, SizeBytes: 3}})
		if status.Code(err) == codes.NotFound {
			return -1
		}
		if err != nil {
			return -2
		}
		return res.ExitCode
	}
	rec := f.httpDo(httptest.NewRequest(http.MethodGet, acURL(instance, key), nil))
	if rec.Code == 404 {
		return -1
	}
	if rec.Code != 200 {
		return -2
	}
	ar := &pb.ActionResult{}
	if proto.Unmarshal(rec.Body.Bytes(), ar) != nil {
		return -2
	}
	head := f.httpDo(httptest.NewRequest(http.MethodHead, acURL(instance, key), nil))
	if head.Code != 200 {
		return -3
	}
	return ar.ExitCode
}

// c15GetZ: the same HTTP lookup by a client that also accepts zstd; the
// action cache has no compressed representation, so the answer must be the
// one a plain GET gets. Returns -4 when a compressed body comes back.
func (f *fx) c15GetZ(instance, key string) int32 {
	req := httptest.NewRequest(http.MethodGet, acURL(instance, key), nil)
	req.Header.Set("Accept-Encoding", "zstd")
	rec := f.httpDo(req)
	if rec.Code == 404 {
		return -1
	}
	if rec.Code != 200 {
		return -2
	}
	if rec.Header().Get("Content-Encoding") == "zstd" {
		return -4
	}
	ar := &pb.ActionResult{}
	if proto.Unmarshal(rec.Body.Bytes(), ar) != nil {
		return -2
	}
	return ar.ExitCode
}

func TestC15(t *testing.T) {
	mode := vlib.Param("MODE", "zstd")
	rep := vlib.NewReport("C15", "E4:instances/"+mode)
	defer rep.Write()
	ctr := 0
	for _, mangle := range []bool{true, false} {
		for _, validate := range []bool{true, false} {
			f := newFx(fxOpts{mode: mode, validateAC: validate, mangle: mangle, noDepsCheck: false})
			for _, wfront := range []string{"grpc", "http"} {
				for wi, winst := range c15Instances {
					ctr++
					key := vlib.Sha([]byte(fmt.Sprintf("c15/%s/%d", mode, ctr)))
					exit := int32(1000 + ctr)
					cfg := fmt.Sprintf("mode=%s mangling=%v http_validation=%v stored via %s under instance %q", mode, mangle, validate, wfront, winst)
					rep.Eval()
					if !f.c15Put(wfront, winst, key, exit) {
						rep.Violate("C15 upload with instance name refused", cfg, nil)
						continue
					}
					for _, rfront := range []string{"grpc", "http"} {
						// HTTP with validation disabled uses the raw key space, gRPC the validated one
						sameSpace := validate || rfront == wfront
						for ri, rinst := range c15Instances {
							rep.Eval()
							got := f.c15Get(rfront, rinst, key)
							id := fmt.Sprintf("%s; read via %s under instance %q -> %d", cfg, rfront, rinst, got)
							if rfront == "http" {
								if gz := f.c15GetZ(rinst, key); gz != got {
									rep.Violate("C15 HTTP action-cache GET answers differently to a client that accepts zstd", fmt.Sprintf("%s (with Accept-Encoding: zstd -> %d; -1 miss, -4 compressed body)", id, gz), nil)
								}
							}
							k := fmt.Sprintf("C15 mangling=%v validation=%v write=%s read=%s", mangle, validate, wfront, rfront)
							wantHit := sameSpace && (!mangle || normInst(rinst) == normInst(winst))
							switch {
							case got <= -2:
								rep.Violate(k+" lookup failed", id, nil)
							case wantHit && got != exit:
								rep.Violate(k+" value not returned for its own instance name", id, nil)
							case !wantHit && got != -1:
								if !sameSpace {
									rep.Violate(k+" raw and validated action caches are not independent", id, nil)
								} else {
									rep.Violate(k+" value returned for another instance name", id, nil)
								}
							default:
								rep.Nontrivial(fmt.Sprintf("%v%v%s%s%d%d", mangle, validate, wfront, rfront, wi, ri))
							}
						}
					}
					// a compressed read is only ever served from the CAS
					{
						req := httptest.NewRequest(http.MethodGet, acURL(winst, key), nil)
						req.Header.Set("Accept-Encoding", "zstd")
						rec := f.httpDo(req)
						ar := &pb.ActionResult{}
						if rec.Code == 200 && (rec.Header().Get("Content-Encoding") == "zstd" || proto.Unmarshal(rec.Body.Bytes(), ar) != nil || ar.ExitCode != exit) && wfront == "http" {
							rep.Violate("C15 compressed response from the action cache", cfg+": GET with Accept-Encoding: zstd", nil)
						}
					}
					// the CAS never sees action-cache keys
					if fm, head, _ := f.present(key, 3); fm || head {
						rep.Violate("C15 action-cache key visible in the CAS", cfg, nil)
					}
				}
			}
			// CAS lookups ignore the instance name entirely
			d := vlib.Bytes("c15/cas/"+mode, 100, false)
			h := vlib.Sha(d)
			f.upload(upReq{path: "batch", hash: h, size: 100, wire: d, abortAfter: -1})
			for _, inst := range c15Instances[1:] {
				rep.Eval()
				u := url.URL{Path: "/" + inst + "/cas/" + h}
				rec := f.httpDo(httptest.NewRequest(http.MethodGet, u.EscapedPath(), nil))
				if rec.Code != 200 || !bytes.Equal(rec.Body.Bytes(), d) {
					rep.Violate("C15 CAS read depends on the instance prefix", fmt.Sprintf("mode=%s mangling=%v GET %s -> %d", mode, mangle, u.EscapedPath(), rec.Code), nil)
				}
				// an action result must not be served from the CAS key space or vice versa
				rec = f.httpDo(httptest.NewRequest(http.MethodGet, acURL(inst, h), nil))
				if rec.Code == 200 {
					rep.Violate("C15 CAS blob served from the action cache", fmt.Sprintf("GET %s -> 200", acURL(inst, h)), nil)
				}
			}
			// the hash of the EMPTY blob (always present in the CAS, never stored) as an action key:
			// the CAS rule must not leak into the action-cache key spaces
			{
				rep.Eval()
				cfgE := fmt.Sprintf("mode=%s mangling=%v http_validation=%v action key = SHA-256 of the empty blob", mode, mangle, validate)
				head := f.httpDo(httptest.NewRequest(http.MethodHead, "/ac/"+emptySha, nil))
				get := f.httpDo(httptest.NewRequest(http.MethodGet, "/ac/"+emptySha, nil))
				g := f.c15Get("grpc", "", emptySha)
				if head.Code != 404 || get.Code != 404 || g != -1 {
					rep.Violate("C15 empty-blob hash: never-stored action key reported present", fmt.Sprintf("%s: before any upload HEAD=%d GET=%d gRPC=%d", cfgE, head.Code, get.Code, g), nil)
				}
				if !f.c15Put("http", "", emptySha, 7777) {
					rep.Violate("C15 empty-blob hash: upload refused", cfgE, nil)
				}
				head = f.httpDo(httptest.NewRequest(http.MethodHead, "/ac/"+emptySha, nil))
				get = f.httpDo(httptest.NewRequest(http.MethodGet, "/ac/"+emptySha, nil))
				if head.Code != 200 || get.Code != 200 || (head.Header().Get("Content-Length") != "" && head.Header().Get("Content-Length") != fmt.Sprint(get.Body.Len())) {
					rep.Violate("C15 empty-blob hash: stored action result not reported as stored", fmt.Sprintf("%s: after the upload HEAD=%d (Content-Length %q) GET=%d (%d bytes)", cfgE, head.Code, head.Header().Get("Content-Length"), get.Code, get.Body.Len()), nil)
				}
				if got := f.c15Get("http", "", emptySha); got != 7777 {
					rep.Violate("C15 empty-blob hash: stored action result not returned", fmt.Sprintf("%s: %d", cfgE, got), nil)
				}
				if rec := f.httpDo(httptest.NewRequest(http.MethodGet, "/cas/"+emptySha, nil)); rec.Code != 200 || rec.Body.Len() != 0 {
					rep.Violate("C15 empty-blob hash: CAS empty blob disturbed", fmt.Sprintf("%s: GET /cas -> %d, %d bytes", cfgE, rec.Code, rec.Body.Len()), nil)
				}
				rep.Nontrivial("emptysha" + cfgE)
			}
			// one hash used as CAS digest, as validated and as raw action key at once (an
			// action key IS the digest of the Action message in the CAS): every space keeps its own value
			for ci, order := range []string{"cas,grpc,http", "http,grpc,cas", "grpc,cas,http", "cas,http", "http,cas", "grpc,cas"} {
				cd := vlib.Bytes(fmt.Sprintf("c15/collide/%s/%v/%v/%d", mode, mangle, validate, ci), 300+ci, false)
				ch := vlib.Sha(cd)
				exG, exH := int32(5000+ci), int32(6000+ci)
				stored := map[string]bool{}
				for _, step := range strings.Split(order, ",") {
					switch step {
					case "cas":
						f.upload(upReq{path: "http", hash: ch, size: int64(len(cd)), wire: cd, abortAfter: -1})
					case "grpc":
						f.c15Put("grpc", "", ch, exG)
					case "http":
						f.c15Put("http", "", ch, exH)
					}
					stored[step] = true
				}
				rep.Eval()
				cfg := fmt.Sprintf("mode=%s mangling=%v http_validation=%v one hash stored as %s", mode, mangle, validate, order)
				wantG, wantH := int32(-1), int32(-1)
				if validate { // one shared validated space: the later write wins
					last := int32(-1)
					for _, step := range strings.Split(order, ",") {
						if step == "grpc" {
							last = exG
						} else if step == "http" {
							last = exH
						}
					}
					wantG, wantH = last, last
				} else {
					if stored["grpc"] {
						wantG = exG
					}
					if stored["http"] {
						wantH = exH
					}
				}
				gotG, gotH, gotHZ := f.c15Get("grpc", "", ch), f.c15Get("http", "", ch), f.c15GetZ("", ch)
				if gotG != wantG || gotH != wantH || gotHZ != wantH {
					rep.Violate("C15 colliding hash: action-cache answer depends on another key space", fmt.Sprintf("%s: gRPC get -> %d (want %d), HTTP get -> %d, HTTP get accepting zstd -> %d (want %d)", cfg, gotG, wantG, gotH, gotHZ, wantH), nil)
				}
				rec := f.httpDo(httptest.NewRequest(http.MethodGet, "/cas/"+ch, nil))
				if stored["cas"] != (rec.Code == 200) || (rec.Code == 200 && !bytes.Equal(rec.Body.Bytes(), cd)) {
					rep.Violate("C15 colliding hash: CAS answer depends on the action cache", fmt.Sprintf("%s: GET /cas -> %d", cfg, rec.Code), nil)
				}
				rep.Nontrivial("collide" + cfg)
			}
			for _, p := range f.takePanics() {
				rep.Violate("C14 handler panic during C15", p, nil)
			}
			f.close()
		}
	}
	rep.Sample(map[string]interface{}{"instances": c15Instances, "front_ends": "gRPC instance_name and HTTP path prefix, every write/read pairing"})
}

// normInst: the HTTP front end cannot express a trailing slash distinctly.
func normInst(s string) string {
	for len(s) > 0 && s[len(s)-1] == '/' {
		s = s[:len(s)-1]
	}
	return s
}
