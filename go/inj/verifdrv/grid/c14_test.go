package grid

// C14: no request can crash the server, panic or hang a handler, or leave
// resources behind. Small-scope structural enumeration: every digest shape at
// every digest position of every request type, resource-name / URL token
// sequences, header value sets, stored blobs that get interpreted as
// Directory / Tree / ActionResult, ByteStream.Write message sequences with a
// client abort after every prefix.

import (
	"bytes"
	"context"
	"crypto/sha256"
	"encoding/base64"
	"encoding/binary"
	"fmt"
	"io"
	"net"
	"net/http"
	"net/http/httptest"
	"os"
	"path/filepath"
	"runtime"
	"runtime/debug"
	"strings"
	"testing"
	"time"

	"google.golang.org/genproto/googleapis/bytestream"
	"google.golang.org/grpc/codes"
	"google.golang.org/grpc/status"
	"google.golang.org/protobuf/proto"

	"github.com/buchgr/bazel-remote/v2/cache"
	"github.com/buchgr/bazel-remote/v2/cache/disk"
	asset "github.com/buchgr/bazel-remote/v2/genproto/build/bazel/remote/asset/v1"
	pb "github.com/buchgr/bazel-remote/v2/genproto/build/bazel/remote/execution/v2"
	"github.com/buchgr/bazel-remote/v2/verifdrv/vlib"
)

type c14Env struct {
	rep     *vlib.Report
	f       *fx
	mode    string
	baseG   int
	baseFD  int
	present *pb.Digest
	data    []byte
	cells   int
	baseRes int64 // reserved bytes already reported as leaked
}

// handlerGoroutines counts goroutines that are inside repository request code.
func handlerGoroutines() (int, string) {
	buf := make([]byte, 8<<20)
	n := runtime.Stack(buf, true)
	cnt := 0
	var first string
	for _, g := range strings.Split(string(buf[:n]), "\n\n") {
		if !(strings.Contains(g, "bazel-remote/v2/server.") || strings.Contains(g, "bazel-remote/v2/cache/disk.") || strings.Contains(g, "bazel-remote/v2/cache/disk/casblob.")) {
			continue
		}
		if strings.Contains(g, "containsWorker") || strings.Contains(g, "performQueuedEvictionsContinuously") || strings.Contains(g, "c14Env") || strings.Contains(g, "grid.TestC") || strings.Contains(g, "ServeGRPC") {
			continue
		}
		cnt++
		if first == "" {
			first = g
		}
	}
	return cnt, first
}

// run executes one cell with a watchdog and the post-conditions.
func (e *c14Env) run(cls, id string, malformed bool, call func(ctx context.Context) (ok bool, st string)) {
	e.rep.Eval()
	e.cells++
	ctx, cancel := context.WithTimeout(context.Background(), 30*time.Second)
	type res struct {
		ok bool
		st string
	}
	done := make(chan res, 1)
	go func() {
		ok, st := call(ctx)
		done <- res{ok, st}
	}()
	var r res
	select {
	case r = <-done:
	case <-time.After(40 * time.Second):
		cancel()
		_, stack := handlerGoroutines()
		e.rep.Violate("C14 "+cls+" handler does not complete", fmt.Sprintf("%s: no answer within 40 s; a handler goroutine:\n%s", id, stack), map[string]interface{}{"cell": id})
		return
	}
	cancel()
	for _, p := range e.f.takePanics() {
		top := p
		if i := strings.Index(p, "\n"); i > 0 {
			top = p[:i]
		}
		e.rep.Violate("C14 "+cls+" handler panic", fmt.Sprintf("%s: %s\n%s", id, top, panicSite(p)), map[string]interface{}{"cell": id, "panic": p})
	}
	if malformed && r.ok {
		e.rep.Violate("C14 "+cls+" malformed request answered OK", fmt.Sprintf("%s -> %s", id, r.st), map[string]interface{}{"cell": id})
	}
	e.rep.Outcome(cls + " -> " + r.st)
	e.rep.Nontrivial(id)
	// cheap leak probe after every cell, full check every 64 cells
	every := 64
	if vlib.Param("LEAKEVERY", "") != "" {
		every = 1
	}
	if e.cells%every == 0 {
		e.leakCheck(cls, id)
	}
}

func panicSite(p string) string {
	for _, l := range strings.Split(p, "\n") {
		if strings.Contains(l, "bazel-remote/v2/") && strings.Contains(l, ".go:") && !strings.Contains(l, "verifdrv") {
			return strings.TrimSpace(l)
		}
	}
	return ""
}

func (e *c14Env) leakCheck(cls, id string) {
	e.f.settle()
	ok := waitFor(func() bool {
		g, _ := handlerGoroutines()
		_, reserved, _, _ := e.f.cache.Stats()
		return g <= e.baseG && reserved == 0
	})
	if !ok {
		g, stack := handlerGoroutines()
		_, reserved, _, _ := e.f.cache.Stats()
		e.rep.Violate("C14 "+cls+" request left a goroutine or a reservation behind", fmt.Sprintf("after %s (and the cells before it): %d goroutines still inside repository request code (baseline %d), reserved=%d; one of them:\n%s", id, g, e.baseG, reserved, stack), nil)
		e.baseG = g // report each leak once
	}
	for _, p := range e.f.invariants() {
		buf := make([]byte, 1<<20)
		n := runtime.Stack(buf, true)
		var rel []string
		for _, g := range strings.Split(string(buf[:n]), "\n\n") {
			if strings.Contains(g, "bazel-remote/v2/") && !strings.Contains(g, "containsWorker") && !strings.Contains(g, "c14Env") && !strings.Contains(g, "performQueuedEvictionsContinuously") {
				rel = append(rel, g)
			}
		}
		e.rep.Violate("C14 "+cls+" cache inconsistent "+genericKey(p), fmt.Sprintf("after %s: %s\ngoroutines in repository code:\n%s", id, p, strings.Join(rel, "\n\n")), nil)
	}
}

type c14D struct {
	name string
	d    *pb.Digest
	bad  bool
}

func (e *c14Env) digests() []c14D {
	h := e.present.Hash
	return []c14D{
		{"nil", nil, true},
		{"empty", &pb.Digest{}, true},
		{"present", e.present, false},
		{"absent", &pb.Digest{Hash: vlib.Sha([]byte("c14 absent")), SizeBytes: 7}, false},
		{"empty-blob", &pb.Digest{Hash: emptySha}, false},
		// a negative size is what bazel-remote's own gRPC proxy sends for action digests (-1: unknown)
		{"negative-size", &pb.Digest{Hash: h, SizeBytes: -1}, false},
		{"huge-size", &pb.Digest{Hash: h, SizeBytes: 1 << 62}, false},
		{"hash-short", &pb.Digest{Hash: h[:10], SizeBytes: 5}, true},
		{"hash-upper", &pb.Digest{Hash: strings.ToUpper(h), SizeBytes: 5}, true},
		{"hash-non-hex", &pb.Digest{Hash: strings.Repeat("g", 64), SizeBytes: 5}, true},
		{"hash-with-slash", &pb.Digest{Hash: "../../" + h[6:], SizeBytes: 5}, true},
		{"zero-size-nonempty-hash", &pb.Digest{Hash: h, SizeBytes: 0}, true},
	}
}

func gst(err error) (bool, string) { return err == nil, status.Code(err).String() }

func (e *c14Env) grpcDigestCells() {
	f := e.f
	ds := e.digests()
	for _, d := range ds {
		d := d
		id := "digest=" + d.name
		e.run("FindMissingBlobs", id, d.bad && d.name != "nil", func(ctx context.Context) (bool, string) {
			_, err := f.cas.FindMissingBlobs(ctx, &pb.FindMissingBlobsRequest{BlobDigests: []*pb.Digest{e.present, d.d}})
			return gst(err)
		})
		e.run("BatchReadBlobs", id, false, func(ctx context.Context) (bool, string) {
			r, err := f.cas.BatchReadBlobs(ctx, &pb.BatchReadBlobsRequest{Digests: []*pb.Digest{d.d}, AcceptableCompressors: []pb.Compressor_Value{pb.Compressor_ZSTD}})
			if err == nil && d.bad && len(r.Responses) == 1 && r.Responses[0].GetStatus().GetCode() == 0 && len(r.Responses[0].Data) > 0 {
				return true, "OK-with-data"
			}
			return false, status.Code(err).String()
		})
		for _, data := range [][]byte{nil, []byte("x"), e.data} {
			data := data
			e.run("BatchUpdateBlobs", fmt.Sprintf("%s data=%d bytes", id, len(data)), false, func(ctx context.Context) (bool, string) {
				_, err := f.cas.BatchUpdateBlobs(ctx, &pb.BatchUpdateBlobsRequest{Requests: []*pb.BatchUpdateBlobsRequest_Request{{Digest: d.d, Data: data}}})
				return gst(err)
			})
		}
		e.run("GetTree", id, d.bad, func(ctx context.Context) (bool, string) {
			st, err := f.cas.GetTree(ctx, &pb.GetTreeRequest{RootDigest: d.d})
			if err != nil {
				return gst(err)
			}
			_, err = st.Recv()
			if err == io.EOF {
				err = nil
			}
			return gst(err)
		})
		for _, inl := range []bool{false, true} {
			inl := inl
			e.run("GetActionResult", fmt.Sprintf("%s inline=%v", id, inl), d.bad, func(ctx context.Context) (bool, string) {
				_, err := f.ac.GetActionResult(ctx, &pb.GetActionResultRequest{ActionDigest: d.d, InlineStdout: inl, InlineStderr: inl, InlineOutputFiles: []string{"f"}})
				return gst(err)
			})
		}
		for _, arName := range []string{"nil", "empty", "digest-in-file", "digest-in-stdout", "digest-in-dir"} {
			arName := arName
			var ar *pb.ActionResult
			switch arName {
			case "empty":
				ar = &pb.ActionResult{}
			case "digest-in-file":
				ar = &pb.ActionResult{OutputFiles: []*pb.OutputFile{{Path: "p", Digest: d.d}}}
			case "digest-in-stdout":
				ar = &pb.ActionResult{StdoutDigest: d.d, StdoutRaw: []byte("raw")}
			case "digest-in-dir":
				ar = &pb.ActionResult{OutputDirectories: []*pb.OutputDirectory{{Path: "d", TreeDigest: d.d}}}
			}
			key := &pb.Digest{Hash: vlib.Sha([]byte("c14 ar " + d.name + arName)), SizeBytes: 1}
			e.run("UpdateActionResult", fmt.Sprintf("action_result=%s %s", arName, id), false, func(ctx context.Context) (bool, string) {
				_, err := f.ac.UpdateActionResult(ctx, &pb.UpdateActionResultRequest{ActionDigest: key, ActionResult: ar})
				return gst(err)
			})
			e.run("UpdateActionResult", fmt.Sprintf("action_digest %s action_result=%s", id, arName), d.bad, func(ctx context.Context) (bool, string) {
				_, err := f.ac.UpdateActionResult(ctx, &pb.UpdateActionResultRequest{ActionDigest: d.d, ActionResult: ar})
				return gst(err)
			})
		}
		for _, d2 := range ds {
			d2 := d2
			e.run("SpliceBlob", fmt.Sprintf("blob_%s chunk_digest=%s", id, d2.name), d.bad && d.name != "nil" || d2.bad, func(ctx context.Context) (bool, string) {
				_, err := f.cas.SpliceBlob(ctx, &pb.SpliceBlobRequest{BlobDigest: d.d, ChunkDigests: []*pb.Digest{e.present, d2.d}})
				return gst(err)
			})
		}
		e.run("SplitBlob", id, false, func(ctx context.Context) (bool, string) {
			_, err := f.cas.SplitBlob(ctx, &pb.SplitBlobRequest{BlobDigest: d.d})
			return gst(err)
		})
	}
	e.run("SpliceBlob", "no chunks", true, func(ctx context.Context) (bool, string) {
		_, err := f.cas.SpliceBlob(ctx, &pb.SpliceBlobRequest{})
		return gst(err)
	})
	e.run("SpliceBlob", "unknown digest function", true, func(ctx context.Context) (bool, string) {
		_, err := f.cas.SpliceBlob(ctx, &pb.SpliceBlobRequest{DigestFunction: 77, ChunkDigests: []*pb.Digest{e.present}})
		return gst(err)
	})
	// FetchBlob qualifier / uri shapes
	for _, uris := range [][]string{nil, {""}, {"ftp://x/y"}, {"http://127.0.0.1:1/none"}, {"::not a url"}, {origin().put("/c14", originObj{body: []byte("hello"), declLen: 5})}} {
		for _, q := range [][]*asset.Qualifier{nil, {{}}, {{Name: "checksum.sri", Value: "sha256-!!!"}}, {{Name: "checksum.sri", Value: "sha256-"}}, {{Name: "checksum.sri", Value: "sha512-AAAA"}},
			{{Name: "http_header_url:x:y", Value: "v"}}, {{Name: "http_header_url:99:k", Value: "v"}}, {{Name: "http_header_url:-1:k", Value: "v"}}, {{Name: "http_header:", Value: ""}}} {
			uris, q := uris, q
			e.run("FetchBlob", fmt.Sprintf("uris=%q qualifiers=%v", uris, q), false, func(ctx context.Context) (bool, string) {
				r, err := f.fetch.FetchBlob(ctx, &asset.FetchBlobRequest{Uris: uris, Qualifiers: q})
				if err != nil {
					return gst(err)
				}
				return r.GetStatus().GetCode() == 0, codes.Code(r.GetStatus().GetCode()).String()
			})
		}
	}
	e.run("FetchDirectory", "empty", false, func(ctx context.Context) (bool, string) {
		_, err := f.fetch.FetchDirectory(ctx, &asset.FetchDirectoryRequest{})
		return gst(err)
	})
	e.run("GetCapabilities", "empty", false, func(ctx context.Context) (bool, string) {
		_, err := f.caps.GetCapabilities(ctx, &pb.GetCapabilitiesRequest{InstanceName: "x/y"})
		return gst(err)
	})
}

// stored blobs that the server interprets
func (e *c14Env) storedBlobCells() {
	f := e.f
	put := func(b []byte) *pb.Digest {
		d := &pb.Digest{Hash: vlib.Sha(b), SizeBytes: int64(len(b))}
		_ = f.cache.Put(context.Background(), cache.CAS, d.Hash, d.SizeBytes, bytes.NewReader(b))
		return d
	}
	mar := func(m proto.Message) []byte { b, _ := proto.Marshal(m); return b }
	leaf := put(mar(&pb.Directory{Files: []*pb.FileNode{{Name: "f"}}}))
	dirs := map[string][]byte{
		"garbage":                  []byte("\xff\xff\xffnot a directory"),
		"child-with-nil-digest":    mar(&pb.Directory{Directories: []*pb.DirectoryNode{{Name: "sub"}}}),
		"child-with-empty-digest":  mar(&pb.Directory{Directories: []*pb.DirectoryNode{{Name: "sub", Digest: &pb.Digest{}}}}),
		"child-with-bad-hash":      mar(&pb.Directory{Directories: []*pb.DirectoryNode{{Name: "sub", Digest: &pb.Digest{Hash: "xyz", SizeBytes: 3}}}}),
		"child-with-negative-size": mar(&pb.Directory{Directories: []*pb.DirectoryNode{{Name: "sub", Digest: &pb.Digest{Hash: leaf.Hash, SizeBytes: -5}}}}),
		"child-absent":             mar(&pb.Directory{Directories: []*pb.DirectoryNode{{Name: "sub", Digest: &pb.Digest{Hash: vlib.Sha([]byte("nowhere")), SizeBytes: 9}}}}),
		"child-is-garbage":         mar(&pb.Directory{Directories: []*pb.DirectoryNode{{Name: "sub", Digest: put([]byte("\xfe\xfegarbage child"))}}}),
		"two-levels":               mar(&pb.Directory{Directories: []*pb.DirectoryNode{{Name: "sub", Digest: leaf}, {Name: "sub2", Digest: leaf}}}),
		"empty-directory-message":  mar(&pb.Directory{Files: []*pb.FileNode{{}}}),
	}
	for name, b := range dirs {
		d := put(b)
		e.run("GetTree(stored blob)", "root="+name, false, func(ctx context.Context) (bool, string) {
			st, err := f.cas.GetTree(ctx, &pb.GetTreeRequest{RootDigest: d})
			if err != nil {
				return gst(err)
			}
			for {
				_, err = st.Recv()
				if err != nil {
					break
				}
			}
			if err == io.EOF {
				err = nil
			}
			return gst(err)
		})
	}
	trees := map[string][]byte{
		"garbage":              []byte("\xff\x00\xffnot a tree"),
		"nil-root":             mar(&pb.Tree{}),
		"root-file-nil-digest": mar(&pb.Tree{Root: &pb.Directory{Files: []*pb.FileNode{{Name: "x"}}}}),
		"child-nil-files":      mar(&pb.Tree{Root: &pb.Directory{}, Children: []*pb.Directory{{}, {Files: []*pb.FileNode{{}}}}}),
		"bad-digest-in-tree":   mar(&pb.Tree{Root: &pb.Directory{Files: []*pb.FileNode{{Name: "x", Digest: &pb.Digest{Hash: "zz", SizeBytes: -1}}}}}),
	}
	i := 0
	for name, b := range trees {
		i++
		td := put(b)
		ar := &pb.ActionResult{OutputDirectories: []*pb.OutputDirectory{{Path: "d", TreeDigest: td}}}
		key := vlib.Sha([]byte(fmt.Sprintf("c14 tree ar %d %s", i, e.mode)))
		data := mar(ar)
		_ = f.cache.Put(context.Background(), cache.AC, key, int64(len(data)), bytes.NewReader(data))
		e.run("GetActionResult(stored tree)", "tree="+name, false, func(ctx context.Context) (bool, string) {
			_, err := f.ac.GetActionResult(ctx, &pb.GetActionResultRequest{ActionDigest: &pb.Digest{Hash: key, SizeBytes: 1}})
			return gst(err)
		})
		e.run("HTTP GET /ac (stored tree)", "tree="+name, false, func(ctx context.Context) (bool, string) {
			rec := f.httpDo(httptest.NewRequest(http.MethodGet, "/ac/"+key, nil))
			return rec.Code == 200, fmt.Sprint(rec.Code)
		})
	}
	ars := map[string][]byte{
		"garbage":             []byte("\xff\xff garbage action result"),
		"empty":               {},
		"file-nil-digest":     mar(&pb.ActionResult{OutputFiles: []*pb.OutputFile{{Path: "p"}}}),
		"dir-nil-tree-digest": mar(&pb.ActionResult{OutputDirectories: []*pb.OutputDirectory{{Path: "p"}}}),
		"negative-stdout":     mar(&pb.ActionResult{StdoutDigest: &pb.Digest{Hash: leaf.Hash, SizeBytes: -1}}),
	}
	for name, b := range ars {
		if len(b) == 0 {
			continue
		}
		key := vlib.Sha([]byte("c14 stored ar " + name + e.mode))
		_ = f.cache.Put(context.Background(), cache.AC, key, int64(len(b)), bytes.NewReader(b))
		for _, inl := range []bool{false, true} {
			inl := inl
			e.run("GetActionResult(stored action result)", fmt.Sprintf("stored=%s inline=%v", name, inl), true, func(ctx context.Context) (bool, string) {
				_, err := f.ac.GetActionResult(ctx, &pb.GetActionResultRequest{ActionDigest: &pb.Digest{Hash: key, SizeBytes: 1}, InlineStdout: inl})
				return gst(err)
			})
		}
		e.run("HTTP GET /ac (stored action result)", "stored="+name, true, func(ctx context.Context) (bool, string) {
			req := httptest.NewRequest(http.MethodGet, "/ac/"+key, nil)
			req.Header.Set("Accept", "application/json")
			rec := f.httpDo(req)
			return rec.Code == 200, fmt.Sprint(rec.Code)
		})
	}
}

func tokenSeqs(tokens []string, maxLen int, fn func([]string)) {
	var rec func(cur []string)
	rec = func(cur []string) {
		fn(cur)
		if len(cur) == maxLen {
			return
		}
		for _, t := range tokens {
			rec(append(append([]string(nil), cur...), t))
		}
	}
	rec(nil)
}

func (e *c14Env) resourceNameCells() {
	f := e.f
	h := e.present.Hash
	tokens := []string{"", "inst", "uploads", "u-u-i-d", "blobs", "compressed-blobs", "zstd", "gzip", h, "badhash", "0", "-1", fmt.Sprint(e.present.SizeBytes), "9223372036854775808"}
	maxLen := 4
	if vlib.Thorough() {
		maxLen = 5
	}
	n := 0
	tokenSeqs(tokens, maxLen, func(seq []string) {
		// keep the space finite and relevant: at most one instance token, names that mention a blob keyword
		name := strings.Join(seq, "/")
		if len(seq) > 2 && !strings.Contains(name, "blobs") {
			return
		}
		n++
		wellFormedRead := name == fmt.Sprintf("blobs/%s/%d", h, e.present.SizeBytes) || name == fmt.Sprintf("inst/blobs/%s/%d", h, e.present.SizeBytes) ||
			name == fmt.Sprintf("compressed-blobs/zstd/%s/%d", h, e.present.SizeBytes) || name == fmt.Sprintf("inst/compressed-blobs/zstd/%s/%d", h, e.present.SizeBytes) ||
			strings.HasSuffix(name, "blobs/"+emptySha+"/0")
		_ = wellFormedRead
		for _, off := range []int64{0, -1, 2, e.present.SizeBytes, e.present.SizeBytes + 1, 1 << 62} {
			if off != 0 && n%7 != 0 {
				continue
			}
			off := off
			for _, lim := range []int64{0, -1, 1} {
				lim := lim
				if lim != 0 && n%11 != 0 {
					continue
				}
				e.run("ByteStream.Read", fmt.Sprintf("name=%q offset=%d limit=%d", name, off, lim), false, func(ctx context.Context) (bool, string) {
					st, err := f.bs.Read(ctx, &bytestream.ReadRequest{ResourceName: name, ReadOffset: off, ReadLimit: lim})
					if err != nil {
						return gst(err)
					}
					for {
						_, err = st.Recv()
						if err != nil {
							break
						}
					}
					if err == io.EOF {
						err = nil
					}
					return gst(err)
				})
			}
		}
		e.run("QueryWriteStatus", fmt.Sprintf("name=%q", name), false, func(ctx context.Context) (bool, string) {
			_, err := f.bs.QueryWriteStatus(ctx, &bytestream.QueryWriteStatusRequest{ResourceName: name})
			return gst(err)
		})
		e.run("ByteStream.Write(name)", fmt.Sprintf("name=%q", name), false, func(ctx context.Context) (bool, string) {
			st, err := f.bs.Write(ctx)
			if err != nil {
				return gst(err)
			}
			_ = st.Send(&bytestream.WriteRequest{ResourceName: name, Data: e.data, FinishWrite: true})
			_, err = st.CloseAndRecv()
			return gst(err)
		})
	})
}

func (e *c14Env) httpCells() {
	f := e.f
	h := e.present.Hash
	paths := []string{"/", "", "/cas", "/cas/", "/cas/" + h, "/cas/" + h + "/", "/cas/" + h[:63], "/cas/" + strings.ToUpper(h), "/ac/" + h, "/x/y/ac/" + h, "/ac/cas/" + h, "/cas/ac/" + h,
		"/cas.v2/" + h, "/raw/" + h, "/status", "/status/x", "/metrics", "//cas//" + h, "/cas/../cas/" + h, "/%00/cas/" + h, "/cas/" + emptySha}
	methods := []string{"GET", "HEAD", "PUT", "POST", "DELETE", "OPTIONS", "PATCH", "TRACE", "FOO"}
	for _, p := range paths {
		for _, m := range methods {
			p, m := p, m
			e.run("HTTP "+m, "path="+p, false, func(ctx context.Context) (bool, string) {
				req, err := http.NewRequest(m, "http://x"+p, bytes.NewReader(e.data))
				if err != nil {
					return false, "unbuildable"
				}
				req.RequestURI = ""
				rec := f.httpDo(req)
				return rec.Code == 200, fmt.Sprint(rec.Code)
			})
		}
	}
	sizes := []string{"", "-1", "0", "abc", "9223372036854775808", "1e3", " 5", fmt.Sprint(len(e.data)), fmt.Sprint(len(e.data) + 1)}
	encs := []string{"", "identity", "zstd", "gzip", "ZSTD", "zstd, gzip"}
	cts := []string{"", "application/json", "text/plain"}
	for _, target := range []string{"/cas/" + h, "/ac/" + vlib.Sha([]byte("c14 http ac"))} {
		for _, sz := range sizes {
			for _, enc := range encs {
				for _, ct := range cts {
					for _, cl := range []int64{-1, 0, int64(len(e.data))} {
						target, sz, enc, ct, cl := target, sz, enc, ct, cl
						e.run("HTTP PUT headers", fmt.Sprintf("target=%s X-Digest-SizeBytes=%q Content-Encoding=%q Content-Type=%q Content-Length=%d", target[:4], sz, enc, ct, cl), false, func(ctx context.Context) (bool, string) {
							req := httptest.NewRequest(http.MethodPut, target, bytes.NewReader(e.data))
							req.ContentLength = cl
							if sz != "" {
								req.Header.Set("X-Digest-SizeBytes", sz)
							}
							if enc != "" {
								req.Header.Set("Content-Encoding", enc)
							}
							if ct != "" {
								req.Header.Set("Content-Type", ct)
							}
							rec := f.httpDo(req)
							return rec.Code == 200, fmt.Sprint(rec.Code)
						})
					}
				}
			}
		}
	}
	for _, ae := range []string{"zstd", "gzip", "zstd;q=0", "*"} {
		ae := ae
		e.run("HTTP GET Accept-Encoding", ae, false, func(ctx context.Context) (bool, string) {
			req := httptest.NewRequest(http.MethodGet, "/cas/"+h, nil)
			req.Header.Set("Accept-Encoding", ae)
			rec := f.httpDo(req)
			return rec.Code == 200, fmt.Sprint(rec.Code)
		})
	}
}

// ByteStream.Write message sequences with a client abort after every prefix.
func (e *c14Env) writeSequenceCells() {
	f := e.f
	// the client marks the end with finish_write and then WAITS for the answer without
	// half-closing the stream (legal): the handler must answer and release everything
	for _, z := range []bool{false, true} {
		for _, split := range []string{"data+finish in one message", "data, then empty finish message"} {
			z, split := z, split
			content := vlib.Bytes(fmt.Sprintf("c14/nohalfclose/%s/%v/%s", e.mode, z, split), 5000, false)
			wire, kind := content, "blobs"
			if z {
				wire, kind = vlib.ZstdEncode(content), "compressed-blobs/zstd"
			}
			name := fmt.Sprintf("uploads/%s/%s/%s/%d", nextUUID(), kind, vlib.Sha(content), len(content))
			msgs := []c16Msg{{name: name, data: wire, finish: true}}
			if split != "data+finish in one message" {
				msgs = []c16Msg{{name: name, data: wire}, {offset: int64(len(wire)), finish: true}}
			}
			id := fmt.Sprintf("%s upload, %s, client does not half-close", kind, split)
			e.run("ByteStream.Write(no half-close)", id, false, func(ctx context.Context) (bool, string) {
				r := f.bsWrite(msgs, false)
				if r.code == codes.DeadlineExceeded {
					e.rep.Violate("C14 ByteStream.Write handler does not answer after finish_write", id+": no answer within the client deadline although finish_write was sent", nil)
				}
				return r.ok, r.code.String()
			})
			e.leakCheck("ByteStream.Write(no half-close)", id)
		}
	}
	e.run("ByteStream.Write(sequence)", "no message at all, stream half-closed", true, func(ctx context.Context) (bool, string) {
		c2, cancel := context.WithTimeout(ctx, 10*time.Second)
		defer cancel()
		st, err := f.bs.Write(c2)
		if err != nil {
			return gst(err)
		}
		_, err = st.CloseAndRecv()
		if status.Code(err) == codes.DeadlineExceeded {
			e.rep.Violate("C14 ByteStream.Write handler does not complete", "a Write stream that is half-closed without any message is never answered (client deadline of 10 s expired)", nil)
		}
		return gst(err)
	})
	n := int64(len(e.data))
	ctr := 0
	kinds := []string{"first-ok", "first-ok-zstd", "first-offset", "data", "empty", "finish", "other-name", "garbage", "huge-declared"}
	maxLen := 3
	tokenSeqs(kinds, maxLen, func(seq []string) {
		if len(seq) == 0 {
			return
		}
		for abortAt := -1; abortAt <= len(seq); abortAt++ {
			ctr++
			// fresh content per cell so that the blob is never present beforehand
			content := vlib.Bytes(fmt.Sprintf("c14/write/%s/%d", e.mode, ctr), int(n), false)
			h := vlib.Sha(content)
			z := vlib.ZstdEncode(content)
			name := fmt.Sprintf("uploads/%s/blobs/%s/%d", nextUUID(), h, n)
			zname := fmt.Sprintf("uploads/%s/compressed-blobs/zstd/%s/%d", nextUUID(), h, n)
			var msgs []*bytestream.WriteRequest
			for _, k := range seq {
				switch k {
				case "first-ok":
					msgs = append(msgs, &bytestream.WriteRequest{ResourceName: name, Data: content[:n/2]})
				case "first-ok-zstd":
					msgs = append(msgs, &bytestream.WriteRequest{ResourceName: zname, Data: z[:len(z)/2]})
				case "first-offset":
					msgs = append(msgs, &bytestream.WriteRequest{ResourceName: name, WriteOffset: 3, Data: content[:n/2]})
				case "data":
					msgs = append(msgs, &bytestream.WriteRequest{Data: content[n/2:]})
				case "empty":
					msgs = append(msgs, &bytestream.WriteRequest{})
				case "finish":
					msgs = append(msgs, &bytestream.WriteRequest{FinishWrite: true})
				case "other-name":
					msgs = append(msgs, &bytestream.WriteRequest{ResourceName: name + "x", Data: []byte("y")})
				case "garbage":
					msgs = append(msgs, &bytestream.WriteRequest{Data: bytes.Repeat([]byte{0xfe, 0x00, 0x13}, 40000)})
				case "huge-declared":
					msgs = append(msgs, &bytestream.WriteRequest{ResourceName: fmt.Sprintf("uploads/%s/blobs/%s/%d", nextUUID(), h, int64(1)<<61), Data: content})
				}
			}
			abortAt := abortAt
			id := fmt.Sprintf("messages=%v abort_after=%d", seq, abortAt)
			e.run("ByteStream.Write(sequence)", id, false, func(ctx context.Context) (bool, string) {
				sctx, scancel := context.WithCancel(ctx)
				defer scancel()
				st, err := f.bs.Write(sctx)
				if err != nil {
					return gst(err)
				}
				for i, m := range msgs {
					if i == abortAt {
						scancel()
						_, err := st.CloseAndRecv()
						return false, "aborted:" + status.Code(err).String()
					}
					if err := st.Send(m); err != nil {
						break
					}
				}
				if abortAt == len(msgs) {
					scancel()
					_, err := st.CloseAndRecv()
					return false, "aborted:" + status.Code(err).String()
				}
				_, err = st.CloseAndRecv()
				return gst(err)
			})
		}
	})
}

func TestC14(t *testing.T) {
	mode := vlib.Param("MODE", "zstd")
	part := vlib.Param("PART", "digests")
	rep := vlib.NewReport("C14", "E4:"+part+"/"+mode)
	defer rep.Write()
	f := newFx(fxOpts{mode: mode, validateAC: true, asset: true, maxBlob: 8 << 20})
	defer f.close()
	data := vlib.Bytes("c14/present/"+mode, 300, true)
	e := &c14Env{rep: rep, f: f, mode: mode, data: data, present: &pb.Digest{Hash: vlib.Sha(data), SizeBytes: 300}}
	if r := f.upload(upReq{path: "batch", hash: e.present.Hash, size: 300, wire: data, abortAfter: -1}); !r.ok {
		rep.BrokenHarness("setup upload: %s", r.status)
		return
	}
	f.settle()
	time.Sleep(50 * time.Millisecond)
	e.baseG, _ = handlerGoroutines()
	e.baseFD = openFDs()
	if part == "space" {
		f.close()
		c14Space(rep, mode)
		return
	}
	if part == "aborts" {
		f.close()
		c14Aborts(rep, mode)
		return
	}
	if part == "backend-aborts" {
		f.close()
		c14BackendAborts(rep, mode)
		return
	}
	if part == "origin" {
		c14Origin(rep, f, mode)
		return
	}
	if part == "files" {
		f.close()
		c14Files(rep, mode)
		return
	}
	switch part {
	case "digests":
		e.grpcDigestCells()
		e.storedBlobCells()
	case "names":
		e.resourceNameCells()
	case "http":
		e.httpCells()
	case "writes":
		e.writeSequenceCells()
	}
	e.leakCheck(part, "the last cell of part "+part)
	if fd := openFDs(); fd > e.baseFD+8 {
		ok := waitFor(func() bool { runtime.GC(); return openFDs() <= e.baseFD+8 })
		if !ok {
			rep.Violate("C14 "+part+" open files left behind", fmt.Sprintf("mode=%s part=%s: %d open descriptors after all cells, %d before", mode, part, openFDs(), e.baseFD), nil)
		}
	}
	_ = disk.VfDrain
	rep.Extra["cells"] = e.cells
	rep.Sample(map[string]interface{}{"part": part, "mode": mode, "cells": e.cells})
}

// fdsInto counts this process's descriptors that point into dir.
func fdsInto(dir string) (int, string) {
	des, _ := os.ReadDir("/proc/self/fd")
	n := 0
	first := ""
	for _, de := range des {
		t, err := os.Readlink("/proc/self/fd/" + de.Name())
		if err == nil && strings.HasPrefix(t, dir) {
			n++
			if first == "" {
				first = t
			}
		}
	}
	return n, first
}

// c14Space: uploads that are refused for lack of space, through every write
// path: the blob is larger than max_size; the blob fits but other requests'
// reservations hold the space; with max_size_hard_limit; SpliceBlob whose
// chunks each fit but whose result does not (the same chunk twice, two
// chunks). After EVERY cell: no handler goroutine, no reservation, no open
// descriptor into the cache directory, directory == index.
func c14Space(rep *vlib.Report, mode string) {
	const max = 256 << 10
	for _, hard := range []int64{0, max + 64<<10} {
		f := newFx(fxOpts{mode: mode, validateAC: true, asset: true, maxSize: max, hardLimit: hard})
		e := &c14Env{rep: rep, f: f, mode: mode}
		f.settle()
		time.Sleep(30 * time.Millisecond)
		e.baseG, _ = handlerGoroutines()
		baseFD, _ := fdsInto(f.dir)
		ctr := 0
		for _, cause := range []string{"larger-than-max_size", "space-held-by-reservations", "fits"} {
			for _, path := range writePaths {
				for _, shape := range []string{"one", "same-chunk-twice", "two-chunks"} {
					if shape != "one" && !strings.HasPrefix(path, "splice") {
						continue
					}
					ctr++
					n := 300 << 10
					if cause != "larger-than-max_size" {
						n = 100 << 10
					}
					content := vlib.Bytes(fmt.Sprintf("c14/space/%s/%d/%d", mode, hard, ctr), n, false)
					var chunks [][]byte
					switch shape {
					case "one":
						chunks = [][]byte{content}
					case "same-chunk-twice":
						content = append(append([]byte(nil), content[:n/2]...), content[:n/2]...)
						chunks = [][]byte{content[:n/2], content[:n/2]}
					case "two-chunks":
						chunks = [][]byte{content[:n/2], content[n/2:]}
					}
					if path == "fetch" || path == "fetch_nosri" {
						continue // needs an origin server; covered by C01/C17
					}
					wire := content
					if pathIsZstd(path) {
						wire = vlib.ZstdEncode(content)
					}
					u := upReq{path: path, hash: vlib.Sha(content), size: int64(len(content)), wire: wire, chunks: chunks, abortAfter: -1, msgSize: 64 << 10}
					id := fmt.Sprintf("mode=%s max_size=%d hard_limit=%d path=%s shape=%s cause=%s blob=%d bytes", mode, max, hard, path, shape, cause, len(content))
					held := int64(0)
					if cause == "space-held-by-reservations" {
						// splice: the chunks are uploaded first (they fit), then the space is taken
						if strings.HasPrefix(path, "splice") {
							for _, c := range chunks {
								f.upload(upReq{path: "batch", hash: vlib.Sha(c), size: int64(len(c)), wire: c, abortAfter: -1})
							}
							u.noChunkUp = true
						}
						f.settle()
						st := disk.VfSnapshot(f.cache)
						// reservations cannot be evicted, entries can: hold everything but
						// 8 KiB (with a hard limit, which refuses before evicting, everything
						// up to one block below the limit)
						held = max - st.Reserved - 8192
						if strings.HasPrefix(path, "splice") {
							// keep the (most recently used) chunks resident: the reservation may evict everything else
							seen := map[string]bool{}
							for _, c := range chunks {
								if h := vlib.Sha(c); !seen[h] {
									seen[h] = true
									held -= (int64(len(c)) + 2*4096 - 1) / 4096 * 4096
								}
							}
						}
						if hard > 0 && st.CurrentSize+st.QueuedBytes+held > hard-4096 {
							held = hard - 4096 - st.CurrentSize - st.QueuedBytes
						}
						if err := disk.VfReserve(f.cache, held); err != nil {
							rep.BrokenHarness("cannot take the reservation for %s: %v", id, err)
							return
						}
					}
					var got string
					e.run("space", id, false, func(ctx context.Context) (bool, string) {
						r := f.upload(u)
						got = r.status
						return r.ok, r.status
					})
					rep.Outcome(fmt.Sprintf("space hard=%v %s %s %s -> %s", hard > 0, cause, path, shape, got))
					if held > 0 {
						_ = disk.VfUnreserve(f.cache, held)
					}
					e.leakCheck("space", id)
					if ok := waitFor(func() bool { k, _ := fdsInto(f.dir); return k <= baseFD }); !ok {
						k, first := fdsInto(f.dir)
						rep.Violate("C14 space request left an open file behind", fmt.Sprintf("%s: %d descriptors into the cache directory (before: %d), e.g. %s", id, k, baseFD, first), nil)
						baseFD = k
					}
				}
			}
		}
		f.close()
	}
}

// c14Aborts: downloads the client walks away from. Every streaming read path
// (ByteStream.Read blobs/ and compressed-blobs/zstd/, HTTP GET with and
// without Accept-Encoding: zstd) x blob sizes (one chunk, several chunks) x
// the point at which the client stops (before reading anything, after the
// first piece) x how it stops (cancel / close the connection). The garbage
// collector is switched off for the duration, so a file that is only ever
// closed by its finalizer counts as left behind. After every cell: no handler
// goroutine, no reservation, no descriptor into the cache directory.
func c14Aborts(rep *vlib.Report, mode string) {
	old := debug.SetGCPercent(-1)
	defer debug.SetGCPercent(old)
	f := newFx(fxOpts{mode: mode, validateAC: true})
	defer f.close()
	e := &c14Env{rep: rep, f: f, mode: mode}
	srv := httptest.NewServer(f.mux)
	defer srv.Close()
	type blob struct {
		hash string
		n    int
	}
	var blobs []blob
	for _, n := range []int{300 << 10, 3<<20 + 17} {
		d := vlib.Bytes(fmt.Sprintf("c14/aborts/%s/%d", mode, n), n, false)
		h := vlib.Sha(d)
		if r := f.upload(upReq{path: "bs", hash: h, size: int64(n), wire: d, abortAfter: -1, msgSize: 1 << 20}); !r.ok {
			rep.BrokenHarness("setup upload: %s", r.status)
			return
		}
		blobs = append(blobs, blob{h, n})
	}
	f.settle()
	time.Sleep(50 * time.Millisecond)
	e.baseG, _ = handlerGoroutines()
	baseFD, _ := fdsInto(f.dir)
	for _, b := range blobs {
		for _, path := range []string{"bs", "bs_zstd", "http", "http_zstd"} {
			for _, stopAfter := range []string{"nothing", "first-piece"} {
				for _, offset := range []int64{0, 1} {
					if offset != 0 && !strings.HasPrefix(path, "bs") {
						continue
					}
					id := fmt.Sprintf("mode=%s path=%s blob=%d bytes offset=%d client stops after %s", mode, path, b.n, offset, stopAfter)
					e.run("aborts", id, false, func(ctx context.Context) (bool, string) {
						switch path {
						case "bs", "bs_zstd":
							name := fmt.Sprintf("blobs/%s/%d", b.hash, b.n)
							if path == "bs_zstd" {
								name = fmt.Sprintf("compressed-blobs/zstd/%s/%d", b.hash, b.n)
							}
							cctx, cancel := context.WithCancel(ctx)
							st, err := f.bs.Read(cctx, &bytestream.ReadRequest{ResourceName: name, ReadOffset: offset})
							if err != nil {
								cancel()
								return false, grpcStatus(err)
							}
							if stopAfter == "first-piece" {
								if _, err := st.Recv(); err != nil {
									cancel()
									return false, grpcStatus(err)
								}
							}
							cancel()
							return true, "aborted"
						default:
							req, _ := http.NewRequestWithContext(ctx, http.MethodGet, srv.URL+"/cas/"+b.hash, nil)
							tr := &http.Transport{DisableCompression: true}
							defer tr.CloseIdleConnections()
							if path == "http_zstd" {
								req.Header.Set("Accept-Encoding", "zstd")
							}
							resp, err := tr.RoundTrip(req)
							if err != nil {
								return false, err.Error()
							}
							if stopAfter == "first-piece" {
								buf := make([]byte, 1000)
								_, _ = io.ReadFull(resp.Body, buf)
							}
							_ = resp.Body.Close()
							return true, "aborted"
						}
					})
					e.leakCheckNoGC("aborts", id)
					if ok := waitFor(func() bool { k, _ := fdsInto(f.dir); return k <= baseFD }); !ok {
						k, first := fdsInto(f.dir)
						rep.Violate("C14 aborts download left an open file behind", fmt.Sprintf("%s: %d descriptors into the cache directory (before: %d) with the garbage collector off, e.g. %s", id, k, baseFD, first), nil)
						baseFD = k
					}
				}
			}
		}
	}
}

// leakCheckNoGC: goroutines and reservations only (no forced collection).
func (e *c14Env) leakCheckNoGC(cls, id string) {
	ok := waitFor(func() bool {
		g, _ := handlerGoroutines()
		_, reserved, _, _ := e.f.cache.Stats()
		return g <= e.baseG && reserved <= e.baseRes && e.f.active.Load() == 0
	})
	if !ok {
		g, stack := handlerGoroutines()
		_, reserved, _, _ := e.f.cache.Stats()
		e.rep.Violate("C14 "+cls+" request left a goroutine or a reservation behind", fmt.Sprintf("after %s: %d goroutines still inside repository request code (baseline %d), reserved=%d (before: %d); one of them:\n%s", id, g, e.baseG, reserved, e.baseRes, stack), nil)
		e.baseG = g
		e.baseRes = reserved // what has leaked stays leaked: later cells are judged against it
	}
}

// c14Origin: Remote Asset FetchBlob against an origin that answers with every
// status class x body shape: 200 / 403 / 404 / 500 / 503 x {no body, 10 bytes,
// 100 KiB} x {Content-Length, chunked} x with / without a checksum qualifier
// (matching and not matching). After every cell (three requests) the origin
// must not be holding a connection that the cache has not given back (idle
// pooled connections are closed first), and the usual leak oracle applies.
func c14Origin(rep *vlib.Report, f *fx, mode string) {
	e := &c14Env{rep: rep, f: f, mode: mode}
	f.settle()
	time.Sleep(30 * time.Millisecond)
	e.baseG, _ = handlerGoroutines()
	o := origin()
	ctr := 0
	for _, st := range []int{200, 403, 404, 500, 503} {
		for _, n := range []int{0, 10, 100 << 10} {
			for _, chunked := range []bool{false, true} {
				for _, qual := range []string{"none", "matching", "other"} {
					ctr++
					body := vlib.Bytes(fmt.Sprintf("c14/origin/%s/%d", mode, ctr), n, false)
					ob := originObj{body: body, declLen: n, status: st}
					if chunked {
						ob.declLen = -1
					}
					url := o.put(fmt.Sprintf("/c14origin/%d", ctr), ob)
					var qs []*asset.Qualifier
					switch qual {
					case "matching":
						qs = []*asset.Qualifier{{Name: "checksum.sri", Value: "sha256-" + sriOf(body)}}
					case "other":
						qs = []*asset.Qualifier{{Name: "checksum.sri", Value: "sha256-" + sriOf([]byte("something else"))}}
					}
					id := fmt.Sprintf("mode=%s origin answers %d with %d body bytes (chunked=%v), checksum qualifier %s", mode, st, n, chunked, qual)
					for rpt := 0; rpt < 3; rpt++ {
						e.run("FetchBlob-origin", fmt.Sprintf("%s #%d", id, rpt), false, func(ctx context.Context) (bool, string) {
							r, err := f.fetch.FetchBlob(ctx, &asset.FetchBlobRequest{Uris: []string{url}, Qualifiers: qs})
							if err != nil {
								return false, grpcStatus(err)
							}
							return r.GetStatus().GetCode() == 0, fmt.Sprintf("status %d", r.GetStatus().GetCode())
						})
					}
					if ok := waitFor(func() bool { return o.openConns() == 0 }); !ok {
						rep.Violate("C14 FetchBlob-origin connection to the origin not given back", fmt.Sprintf("%s: after three requests (idle pooled connections closed) the origin still holds %d connection(s) open", id, o.openConns()), nil)
						// one report is enough (every further leaking cell would wait for its cap)
						o.mu.Lock()
						o.open = map[net.Conn]bool{}
						o.mu.Unlock()
						return
					}
					e.leakCheck("FetchBlob-origin", id)
				}
			}
		}
	}
}

func sriOf(b []byte) string {
	h := sha256.Sum256(b)
	return base64.StdEncoding.EncodeToString(h[:])
}

// c14Files: "caches holding arbitrary well- and ill-formed blobs": cas.v2 files whose HEADER
// is damaged field by field (chunk size 0 / 1 / huge, logical size 0 / negative / larger /
// smaller than the data, offset count too small / too large, offsets not increasing / beyond
// the file, wrong compression type, truncated header) lie in the directory under valid names;
// the cache is started on it and every read path asks for them at offsets 0, 1 and size-1.
// Whatever the answer (miss, error), no handler may panic, hang or leak.
func c14Files(rep *vlib.Report, mode string) {
	dir := vlib.Scratch("c14files-" + mode)
	content := vlib.Bytes("c14/files/"+mode, 3<<20+9, true)
	good := vlib.EncodeCasBlob(content, 1<<20, true) // header: magic4 len4 size8 type1 chunk4 n8 offsets8*n
	le := binary.LittleEndian
	type variant struct {
		name string
		file []byte
	}
	mut := func(name string, f func(b []byte) []byte) variant {
		return variant{name, f(append([]byte(nil), good...))}
	}
	nOff := int(le.Uint64(good[21:29]))
	variants := []variant{
		mut("chunk-size-0", func(b []byte) []byte { le.PutUint32(b[17:21], 0); return b }),
		mut("chunk-size-1", func(b []byte) []byte { le.PutUint32(b[17:21], 1); return b }),
		mut("chunk-size-huge", func(b []byte) []byte { le.PutUint32(b[17:21], 0xffffffff); return b }),
		mut("chunk-size-half", func(b []byte) []byte { le.PutUint32(b[17:21], 1<<19); return b }),
		mut("logical-size-0", func(b []byte) []byte { le.PutUint64(b[8:16], 0); return b }),
		mut("logical-size-negative", func(b []byte) []byte { le.PutUint64(b[8:16], ^uint64(0)); return b }),
		mut("logical-size-larger", func(b []byte) []byte { le.PutUint64(b[8:16], uint64(len(content))+(5<<20)); return b }),
		mut("logical-size-smaller", func(b []byte) []byte { le.PutUint64(b[8:16], 10); return b }),
		mut("offset-count-1", func(b []byte) []byte { le.PutUint64(b[21:29], 1); return b }),
		mut("offset-count-2", func(b []byte) []byte { le.PutUint64(b[21:29], 2); return b }),
		mut("offset-count-huge", func(b []byte) []byte { le.PutUint64(b[21:29], 1<<40); return b }),
		mut("offsets-not-increasing", func(b []byte) []byte { copy(b[29+8:29+16], b[29:29+8]); return b }),
		mut("offset-beyond-file", func(b []byte) []byte { le.PutUint64(b[29+8:29+16], uint64(len(b))+1000); return b }),
		mut("compression-type-7", func(b []byte) []byte { b[16] = 7; return b }),
		mut("compression-identity-claimed", func(b []byte) []byte { b[16] = 0; return b }),
		mut("frame-length-short", func(b []byte) []byte { le.PutUint32(b[4:8], 5); return b }),
		mut("header-truncated", func(b []byte) []byte { return b[:29+8*(nOff-1)] }),
		mut("only-magic", func(b []byte) []byte { return b[:4] }),
		mut("chunk-data-garbage", func(b []byte) []byte {
			for i := 29 + 8*nOff; i < len(b); i++ {
				b[i] ^= 0x5a
			}
			return b
		}),
	}
	type placed struct {
		name string
		hash string
	}
	var files []placed
	for i, v := range variants {
		// every file gets its own (well-formed) name; the claimed hash is arbitrary
		h := vlib.Sha([]byte(fmt.Sprintf("c14 file %s %d", mode, i)))
		p := filepath.Join(dir, "cas.v2", h[:2])
		_ = os.MkdirAll(p, 0o755)
		if err := os.WriteFile(filepath.Join(p, fmt.Sprintf("%s-%d-%d", h, len(content), 100+i)), v.file, 0o644); err != nil {
			rep.BrokenHarness("write: %v", err)
			return
		}
		files = append(files, placed{v.name, h})
	}
	var f *fx
	func() {
		defer func() {
			if r := recover(); r != nil {
				rep.Violate("C14 files start-up panics on an ill-formed file", fmt.Sprintf("mode=%s: %v", mode, r), nil)
			}
		}()
		f = newFx(fxOpts{mode: mode, validateAC: true, dir: dir})
	}()
	if f == nil {
		return
	}
	defer f.close()
	e := &c14Env{rep: rep, f: f, mode: mode}
	f.settle()
	time.Sleep(30 * time.Millisecond)
	e.baseG, _ = handlerGoroutines()
	n := int64(len(content))
	for _, pf := range files {
		for _, path := range []string{"bs", "bs_zstd", "http", "http_zstd", "batch", "batch_zstd"} {
			for _, off := range []int64{0, 1, 1 << 20, 1<<20 + 1, n - 1} {
				if off != 0 && !strings.HasPrefix(path, "bs") {
					continue
				}
				id := fmt.Sprintf("mode=%s file=%s read via %s at offset %d", mode, pf.name, path, off)
				e.run("files "+pf.name, id, false, func(ctx context.Context) (bool, string) {
					rd := f.read(path, pf.hash, n, off, 0)
					return rd.ok, rd.status
				})
			}
		}
		// an existence check and a dependency check on it
		e.run("files", fmt.Sprintf("mode=%s file=%s FindMissingBlobs", mode, pf.name), false, func(ctx context.Context) (bool, string) {
			_, err := f.cas.FindMissingBlobs(ctx, &pb.FindMissingBlobsRequest{BlobDigests: []*pb.Digest{{Hash: pf.hash, SizeBytes: n}}})
			return err == nil, grpcStatus(err)
		})
	}
	e.leakCheck("files", "the last ill-formed file")
}

// c14BackendAborts: requests that need a SLOW backend and that the client
// gives up on: multi-digest reads of blobs the cache does not hold (known
// sizes: each lookup reserves its space before the backend is asked), a
// ByteStream.Read, a dependency-checked GetActionResult, FindMissingBlobs.
// The client's deadline expires while the first backend call is in progress,
// so the remaining lookups run with a context that is already done. After the
// handler has ended nothing may stay reserved and no goroutine may be left
// (oracle by state, 20 s cap; the timing only decides how many lookups see a
// dead context, never the verdict).
func c14BackendAborts(rep *vlib.Report, mode string) {
	px := vlib.NewFakeProxy()
	px.StepFn = func(op, detail string) { time.Sleep(60 * time.Millisecond) }
	f := newFx(fxOpts{mode: mode, validateAC: true, proxy: px, maxSize: 4 << 20})
	defer f.close()
	e := &c14Env{rep: rep, f: f, mode: mode}
	f.settle()
	time.Sleep(30 * time.Millisecond)
	e.baseG, _ = handlerGoroutines()
	ctr := 0
	digests := func(k, n int, inBackend bool) []*pb.Digest {
		var ds []*pb.Digest
		for i := 0; i < k; i++ {
			ctr++
			d := vlib.Bytes(fmt.Sprintf("c14/backend-aborts/%s/%d", mode, ctr), n, false)
			h := vlib.Sha(d)
			if inBackend {
				st := d
				if mode == "zstd" {
					st = vlib.EncodeCasBlob(d, 1<<20, true)
				}
				px.Set(cache.CAS, h, st, int64(n))
			}
			ds = append(ds, &pb.Digest{Hash: h, SizeBytes: int64(n)})
		}
		return ds
	}
	for _, inBackend := range []bool{false, true} {
		for _, n := range []int{1000, 300 << 10} {
			for _, patience := range []time.Duration{30 * time.Millisecond, 90 * time.Millisecond, 200 * time.Millisecond} {
				for _, op := range []string{"BatchReadBlobs", "ByteStream.Read", "GetActionResult", "FindMissingBlobs", "GetTree"} {
					id := fmt.Sprintf("mode=%s %s of 4 blobs of %d bytes (held by the slow backend: %v), client gives up after %v", mode, op, n, inBackend, patience)
					ds := digests(4, n, inBackend)
					e.run("backend-aborts", id, false, func(ctx context.Context) (bool, string) {
						cctx, cancel := context.WithTimeout(ctx, patience)
						defer cancel()
						var err error
						switch op {
						case "BatchReadBlobs":
							_, err = f.cas.BatchReadBlobs(cctx, &pb.BatchReadBlobsRequest{Digests: ds})
						case "ByteStream.Read":
							st, e1 := f.bs.Read(cctx, &bytestream.ReadRequest{ResourceName: fmt.Sprintf("blobs/%s/%d", ds[0].Hash, ds[0].SizeBytes)})
							err = e1
							if err == nil {
								_, err = st.Recv()
							}
						case "FindMissingBlobs":
							_, err = f.cas.FindMissingBlobs(cctx, &pb.FindMissingBlobsRequest{BlobDigests: ds})
						case "GetTree":
							st, e1 := f.cas.GetTree(cctx, &pb.GetTreeRequest{RootDigest: ds[0]})
							err = e1
							if err == nil {
								_, err = st.Recv()
							}
						case "GetActionResult":
							ar := &pb.ActionResult{StdoutDigest: ds[0], StderrDigest: ds[1], OutputFiles: []*pb.OutputFile{{Path: "a", Digest: ds[2]}, {Path: "b", Digest: ds[3]}}}
							data, _ := proto.Marshal(ar)
							key := vlib.Sha([]byte("c14 backend-aborts ac " + ds[0].Hash))
							_ = f.cache.Put(context.Background(), cache.AC, key, int64(len(data)), bytes.NewReader(data))
							_, err = f.ac.GetActionResult(cctx, &pb.GetActionResultRequest{ActionDigest: &pb.Digest{Hash: key, SizeBytes: 1}, InlineStdout: true})
						}
						return err == nil, grpcStatus(err)
					})
					e.leakCheckNoGC("backend-aborts", id)
				}
			}
		}
	}
	f.settle()
	for _, p := range f.invariants() {
		rep.Violate("C14 backend-aborts cache inconsistent "+genericKey(p), p, nil)
	}
}
