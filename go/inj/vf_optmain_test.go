package main

// Process-level parts of C06 and C11: the servers are started by run() of
// package main, so that the way validation / dependency checking (and every
// other option next to them in the constructors' parameter lists) reaches the
// two front ends is part of what is explored. One process per configuration
// (VERIF_PARAM_OTHER: options that must not matter; VERIF_PARAM_NOVALID /
// VERIF_PARAM_NODEPS: the options under test).
//
// C06: with validation and dependency checking on (the defaults), an
// ActionResult that refers to an absent blob is a miss on both front ends in
// every reference position, whatever else is configured; with all blobs
// present it is a hit.
// C11: an action-cache upload that does not parse or does not validate is
// refused on both front ends (HTTP: unless validation is disabled) and
// leaves nothing behind; a valid one is served back unchanged.

import (
	"bytes"
	"context"
	"fmt"
	"io"
	"log"
	"net"
	"net/http"
	"os"
	"path/filepath"
	"strings"
	"testing"
	"time"

	"github.com/urfave/cli/v2"
	"google.golang.org/grpc"
	"google.golang.org/grpc/codes"
	"google.golang.org/grpc/credentials/insecure"
	"google.golang.org/grpc/status"
	"google.golang.org/protobuf/proto"

	pb "github.com/buchgr/bazel-remote/v2/genproto/build/bazel/remote/execution/v2"
	"github.com/buchgr/bazel-remote/v2/utils/flags"
	"github.com/buchgr/bazel-remote/v2/verifdrv/vlib"
)

type vfMainSrv struct {
	hc   *http.Client
	conn *grpc.ClientConn
}

var vfOtherOptions = map[string][]string{
	"none":           nil,
	"mangling":       {"--enable_ac_key_instance_mangling"},
	"asset":          {"--experimental_remote_asset_api"},
	"mangling+asset": {"--enable_ac_key_instance_mangling", "--experimental_remote_asset_api"},
	"uncompressed":   {"--storage_mode", "uncompressed"},
	"metrics":        {"--enable_endpoint_metrics"},
	"max_blob_size":  {"--max_blob_size", "1000000"},
}

// vfStartMain does what main() does, with the listeners on unix sockets.
func vfStartMain(rep *vlib.Report, tag string, extra []string) *vfMainSrv {
	log.SetOutput(io.Discard)
	base := vlib.Scratch(tag)
	httpSock := filepath.Join(base, "h.sock")
	grpcSock := filepath.Join(base, "g.sock")
	args := []string{"bazel-remote", "--dir", filepath.Join(base, "cache"), "--max_size", "1", "--http_address", "unix://" + httpSock, "--grpc_address", "unix://" + grpcSock,
		"--access_log_level", "none"}
	args = append(args, extra...)
	app := cli.NewApp()
	cli.AppHelpTemplate = flags.Template
	cli.HelpPrinterCustom = flags.HelpPrinter
	app.ExtraInfo = func() map[string]string { return map[string]string{} }
	app.Flags = flags.GetCliFlags()
	app.Action = run
	app.Writer = io.Discard
	app.ErrWriter = io.Discard
	done := make(chan error, 1)
	go func() { done <- app.Run(args) }()
	deadline := time.Now().Add(30 * time.Second)
	for {
		_, e1 := os.Stat(httpSock)
		_, e2 := os.Stat(grpcSock)
		if e1 == nil && e2 == nil {
			break
		}
		select {
		case err := <-done:
			rep.BrokenHarness("server exited during start-up: %v", err)
			return nil
		default:
		}
		if time.Now().After(deadline) {
			rep.BrokenHarness("server sockets did not appear")
			return nil
		}
		time.Sleep(10 * time.Millisecond)
	}
	time.Sleep(50 * time.Millisecond)
	hc := &http.Client{Transport: &http.Transport{DialContext: func(ctx context.Context, _, _ string) (net.Conn, error) {
		return (&net.Dialer{}).DialContext(ctx, "unix", httpSock)
	}}, Timeout: 20 * time.Second}
	conn, err := grpc.NewClient("passthrough:///unix", grpc.WithTransportCredentials(insecure.NewCredentials()),
		grpc.WithContextDialer(func(ctx context.Context, _ string) (net.Conn, error) {
			return (&net.Dialer{}).DialContext(ctx, "unix", grpcSock)
		}))
	if err != nil {
		rep.BrokenHarness("grpc client: %v", err)
		return nil
	}
	return &vfMainSrv{hc: hc, conn: conn}
}

func (s *vfMainSrv) httpDo(method, path string, body []byte) (int, []byte) {
	req, _ := http.NewRequest(method, "http://unix"+path, bytes.NewReader(body))
	resp, err := s.hc.Do(req)
	if err != nil {
		return -1, nil
	}
	b, _ := io.ReadAll(resp.Body)
	_ = resp.Body.Close()
	return resp.StatusCode, b
}

func vfCtx() (context.Context, context.CancelFunc) {
	return context.WithTimeout(context.Background(), 20*time.Second)
}

func TestVfC06Main(t *testing.T) {
	other := vlib.Param("OTHER", "none")
	cfgName := "validation=on deps_check=on other=" + other
	rep := vlib.NewReport("C06", "E4-main:"+cfgName)
	defer rep.Write()
	extra, ok := vfOtherOptions[other]
	if !ok {
		t.Fatalf("unknown OTHER %q", other)
	}
	s := vfStartMain(rep, "c06main", extra)
	if s == nil {
		return
	}
	defer s.conn.Close()
	ac := pb.NewActionCacheClient(s.conn)
	cas := pb.NewContentAddressableStorageClient(s.conn)

	n := 0
	blob := func(tag string, store bool) *pb.Digest {
		n++
		d := vlib.Bytes(fmt.Sprintf("c06main/%s/%s/%d", other, tag, n), 50+n, false)
		dg := &pb.Digest{Hash: vlib.Sha(d), SizeBytes: int64(len(d))}
		if store {
			if code, _ := s.httpDo(http.MethodPut, "/cas/"+dg.Hash, d); code != 200 {
				rep.BrokenHarness("cannot store blob: %d", code)
			}
		}
		return dg
	}
	// reference positions: output file, stdout, stderr, a Tree blob, a file inside a stored Tree
	positions := []string{"output-file", "stdout", "stderr", "tree-blob", "tree-file", "tree-child-file"}
	build := func(pos string, present bool) *pb.ActionResult {
		ar := &pb.ActionResult{ExitCode: 3,
			OutputFiles:  []*pb.OutputFile{{Path: "out/a", Digest: blob("file", pos != "output-file" || present)}},
			StdoutDigest: blob("stdout", pos != "stdout" || present),
			StderrDigest: blob("stderr", pos != "stderr" || present)}
		leaf := blob("tree-file", pos != "tree-file" || present)
		deep := blob("tree-child-file", pos != "tree-child-file" || present)
		child := &pb.Directory{Files: []*pb.FileNode{{Name: "deep", Digest: deep}}}
		cb, _ := proto.Marshal(child)
		tree := &pb.Tree{Root: &pb.Directory{Files: []*pb.FileNode{{Name: "leaf", Digest: leaf}},
			Directories: []*pb.DirectoryNode{{Name: "sub", Digest: &pb.Digest{Hash: vlib.Sha(cb), SizeBytes: int64(len(cb))}}}}, Children: []*pb.Directory{child}}
		tb, _ := proto.Marshal(tree)
		td := &pb.Digest{Hash: vlib.Sha(tb), SizeBytes: int64(len(tb))}
		if pos != "tree-blob" || present {
			if code, _ := s.httpDo(http.MethodPut, "/cas/"+td.Hash, tb); code != 200 {
				rep.BrokenHarness("cannot store tree: %d", code)
			}
		}
		ar.OutputDirectories = []*pb.OutputDirectory{{Path: "out/dir", TreeDigest: td}}
		return ar
	}
	insts := []string{""}
	if strings.Contains(other, "mangling") {
		insts = []string{"", "inst/x"}
	}
	for _, inst := range insts {
		for _, wfront := range []string{"http", "grpc"} {
			for _, pos := range positions {
				for _, present := range []bool{false, true} {
					rep.Eval()
					ar := build(pos, present)
					n++
					key := vlib.Sha([]byte(fmt.Sprintf("c06main/key/%s/%d", other, n)))
					data, _ := proto.Marshal(ar)
					pfx := ""
					if inst != "" {
						pfx = "/" + inst
					}
					id := fmt.Sprintf("%s (servers started by main.run): ActionResult stored via %s (instance %q), %s %s", cfgName, wfront, inst, pos, map[bool]string{true: "present (all referenced blobs present)", false: "ABSENT, everything else present"}[present])
					if wfront == "http" {
						if code, _ := s.httpDo(http.MethodPut, pfx+"/ac/"+key, data); code != 200 {
							rep.Violate("C06 main: valid ActionResult refused over HTTP", fmt.Sprintf("%s: PUT -> %d", id, code), nil)
							continue
						}
					} else {
						ctx, cancel := vfCtx()
						_, err := ac.UpdateActionResult(ctx, &pb.UpdateActionResultRequest{InstanceName: inst, ActionDigest: &pb.Digest{Hash: key, SizeBytes: 1}, ActionResult: ar})
						cancel()
						if err != nil {
							rep.Violate("C06 main: valid ActionResult refused over gRPC", fmt.Sprintf("%s: %v", id, err), nil)
							continue
						}
					}
					ctx, cancel := vfCtx()
					got, gerr := ac.GetActionResult(ctx, &pb.GetActionResultRequest{InstanceName: inst, ActionDigest: &pb.Digest{Hash: key, SizeBytes: 1}})
					cancel()
					gcode, _ := s.httpDo(http.MethodGet, pfx+"/ac/"+key, nil)
					hcode, _ := s.httpDo(http.MethodHead, pfx+"/ac/"+key, nil)
					grpcHit := gerr == nil && got != nil
					grpcMiss := status.Code(gerr) == codes.NotFound
					res := fmt.Sprintf("gRPC GetActionResult=%v GET=%d HEAD=%d", map[bool]string{true: "hit", false: fmt.Sprint(status.Code(gerr))}[grpcHit], gcode, hcode)
					k := fmt.Sprintf("C06 main other=%s position=%s", other, pos)
					if present {
						if !grpcHit || gcode != 200 || hcode != 200 {
							rep.Violate(k+" miss although every referenced blob is present", id+" -> "+res, nil)
							continue
						}
					} else {
						if grpcHit || gcode == 200 || hcode == 200 {
							rep.Violate(k+" hit although a referenced blob is absent", id+" -> "+res, nil)
							continue
						}
						if !grpcMiss || gcode != 404 || hcode != 404 {
							rep.Violate(k+" error instead of a miss", id+" -> "+res, nil)
							continue
						}
					}
					rep.Nontrivial(fmt.Sprintf("%s%s%s%v", inst, wfront, pos, present))
					rep.Outcome(fmt.Sprintf("%s present=%v -> hit=%v", pos, present, grpcHit))
				}
			}
		}
	}
	_ = cas
	rep.Sample(map[string]interface{}{"config": cfgName, "positions": positions})
}

func TestVfC11Main(t *testing.T) {
	other := vlib.Param("OTHER", "none")
	novalid := vlib.Param("NOVALID", "0") == "1"
	cfgName := fmt.Sprintf("http_validation=%v other=%s", !novalid, other)
	rep := vlib.NewReport("C11", "E4-main:"+cfgName)
	defer rep.Write()
	extra, ok := vfOtherOptions[other]
	if !ok {
		t.Fatalf("unknown OTHER %q", other)
	}
	extra = append([]string(nil), extra...)
	if novalid {
		extra = append(extra, "--disable_http_ac_validation")
	}
	s := vfStartMain(rep, "c11main", extra)
	if s == nil {
		return
	}
	defer s.conn.Close()
	ac := pb.NewActionCacheClient(s.conn)

	good := func(i int) *pb.ActionResult {
		return &pb.ActionResult{ExitCode: int32(i), OutputFiles: []*pb.OutputFile{{Path: "out/a", Digest: &pb.Digest{Hash: vlib.Sha(nil), SizeBytes: 0}}}}
	}
	type bad struct {
		name string
		ar   *pb.ActionResult
		raw  []byte
	}
	bads := []bad{
		{name: "not-a-protobuf", raw: []byte("\xff\xff\xff this is not an ActionResult \xff")},
		{name: "absolute-path", ar: &pb.ActionResult{OutputFiles: []*pb.OutputFile{{Path: "/abs/a", Digest: &pb.Digest{Hash: vlib.Sha(nil)}}}}},
		{name: "empty-path", ar: &pb.ActionResult{OutputFiles: []*pb.OutputFile{{Path: "", Digest: &pb.Digest{Hash: vlib.Sha(nil)}}}}},
		{name: "short-hash", ar: &pb.ActionResult{OutputFiles: []*pb.OutputFile{{Path: "a", Digest: &pb.Digest{Hash: "abc", SizeBytes: 1}}}}},
		{name: "negative-size", ar: &pb.ActionResult{StdoutDigest: &pb.Digest{Hash: vlib.Sha([]byte("x")), SizeBytes: -1}}},
		{name: "nil-file-digest", ar: &pb.ActionResult{OutputFiles: []*pb.OutputFile{{Path: "a"}}}},
		{name: "nil-tree-digest", ar: &pb.ActionResult{OutputDirectories: []*pb.OutputDirectory{{Path: "d"}}}},
	}
	n := 0
	for _, front := range []string{"http", "grpc"} {
		// valid upload: accepted, served back equal on both front ends
		for i := 1; i <= 2; i++ {
			rep.Eval()
			n++
			key := vlib.Sha([]byte(fmt.Sprintf("c11main/%s/good/%d", cfgName, n)))
			ar := good(40 + n)
			data, _ := proto.Marshal(ar)
			id := fmt.Sprintf("%s (servers started by main.run): valid ActionResult uploaded via %s", cfgName, front)
			if front == "http" {
				if code, _ := s.httpDo(http.MethodPut, "/ac/"+key, data); code != 200 {
					rep.Violate("C11 main: valid upload refused", fmt.Sprintf("%s: PUT -> %d", id, code), nil)
					continue
				}
			} else {
				ctx, cancel := vfCtx()
				_, err := ac.UpdateActionResult(ctx, &pb.UpdateActionResultRequest{ActionDigest: &pb.Digest{Hash: key, SizeBytes: 1}, ActionResult: ar})
				cancel()
				if err != nil {
					rep.Violate("C11 main: valid upload refused", fmt.Sprintf("%s: %v", id, err), nil)
					continue
				}
			}
			code, body := s.httpDo(http.MethodGet, "/ac/"+key, nil)
			var back pb.ActionResult
			okHTTP := code == 200 && proto.Unmarshal(body, &back) == nil && back.ExitCode == ar.ExitCode && len(back.OutputFiles) == 1 && back.OutputFiles[0].Path == "out/a"
			// the HTTP and gRPC views agree when both use the validated key space
			ctx, cancel := vfCtx()
			got, gerr := ac.GetActionResult(ctx, &pb.GetActionResultRequest{ActionDigest: &pb.Digest{Hash: key, SizeBytes: 1}})
			cancel()
			okGRPC := gerr == nil && got.ExitCode == ar.ExitCode
			crossExpected := !novalid // without HTTP validation the HTTP front end uses its own raw key space
			if !okHTTP && (front == "http" || crossExpected) {
				rep.Violate("C11 main: accepted upload not served back unchanged over HTTP", fmt.Sprintf("%s: GET -> %d", id, code), nil)
				continue
			}
			if !okGRPC && (front == "grpc" || crossExpected) {
				rep.Violate("C11 main: accepted upload not served back unchanged over gRPC", fmt.Sprintf("%s: %v", id, gerr), nil)
				continue
			}
			rep.Nontrivial(fmt.Sprintf("good %s %d", front, i))
		}
		for _, b := range bads {
			if front == "grpc" && b.ar == nil {
				continue // raw bytes cannot be sent as a message
			}
			rep.Eval()
			n++
			key := vlib.Sha([]byte(fmt.Sprintf("c11main/%s/bad/%d", cfgName, n)))
			data := b.raw
			if b.ar != nil {
				data, _ = proto.Marshal(b.ar)
			}
			id := fmt.Sprintf("%s (servers started by main.run): %s uploaded via %s", cfgName, b.name, front)
			accepted := false
			if front == "http" {
				code, _ := s.httpDo(http.MethodPut, "/ac/"+key, data)
				accepted = code == 200
			} else {
				ctx, cancel := vfCtx()
				_, err := ac.UpdateActionResult(ctx, &pb.UpdateActionResultRequest{ActionDigest: &pb.Digest{Hash: key, SizeBytes: 1}, ActionResult: b.ar})
				cancel()
				accepted = err == nil
			}
			validating := front == "grpc" || !novalid
			k := fmt.Sprintf("C11 main front=%s http_validation=%v upload=%s", front, !novalid, b.name)
			if validating {
				if accepted {
					rep.Violate(k+" ill-formed ActionResult accepted", id, nil)
					continue
				}
				code, _ := s.httpDo(http.MethodGet, "/ac/"+key, nil)
				ctx, cancel := vfCtx()
				_, gerr := ac.GetActionResult(ctx, &pb.GetActionResultRequest{ActionDigest: &pb.Digest{Hash: key, SizeBytes: 1}})
				cancel()
				if code == 200 || gerr == nil {
					rep.Violate(k+" rejected upload left something behind", fmt.Sprintf("%s: GET -> %d, GetActionResult -> %v", id, code, gerr), nil)
					continue
				}
			} else {
				// validation disabled (HTTP only): stored and returned verbatim; never visible to gRPC
				code, body := s.httpDo(http.MethodGet, "/ac/"+key, nil)
				if !accepted || code != 200 || !bytes.Equal(body, data) {
					rep.Violate(k+" not stored verbatim although validation is disabled", fmt.Sprintf("%s: accepted=%v GET -> %d, %d bytes", id, accepted, code, len(body)), nil)
					continue
				}
				ctx, cancel := vfCtx()
				_, gerr := ac.GetActionResult(ctx, &pb.GetActionResultRequest{ActionDigest: &pb.Digest{Hash: key, SizeBytes: 1}})
				cancel()
				if gerr == nil {
					rep.Violate(k+" unvalidated entry served by the validating front end", id, nil)
					continue
				}
			}
			rep.Nontrivial(fmt.Sprintf("bad %s %s", front, b.name))
			rep.Outcome(fmt.Sprintf("%s %s accepted=%v", front, b.name, accepted))
		}
	}
	rep.Sample(map[string]interface{}{"config": cfgName, "ill_formed": len(bads)})
}
