module ovlgen

go 1.25.0
