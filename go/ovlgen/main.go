// ovlgen rewrites the imports of selected repository files so that "sync",
// "sync/atomic" and "os" resolve to scheduler-aware shim packages, and
// generates those shim packages: every identifier the rewritten files use is
// re-exported with its kind resolved through go/types; the operations the
// scheduler must own are wrapped.
//
// usage: ovlgen -out DIR -mod MODPATH file.go...
// Writes DIR/files/<n>.go (rewritten sources), DIR/vsync/vsync.go,
// DIR/vatomic/vatomic.go, DIR/vos/vos.go and DIR/map.json
// ({"rewritten": {orig: new}, "shims": {pkg: file}}).
package main

import (
	"bytes"
	"encoding/json"
	"flag"
	"fmt"
	"go/ast"
	"go/format"
	"go/importer"
	"go/parser"
	"go/token"
	"go/types"
	"os"
	"path/filepath"
	"sort"
	"strconv"
)

var shimOf = map[string]string{"sync": "vsync", "sync/atomic": "vatomic", "os": "vos"}

// fixedShim: packages replaced by a hand-written stand-in (same API), not a generated one
var fixedShim = map[string]string{"golang.org/x/sync/semaphore": "vsem"}

func main() {
	out := flag.String("out", "", "output dir")
	mod := flag.String("mod", "github.com/buchgr/bazel-remote/v2", "module path")
	only := flag.String("only", "", "comma list of std packages to rewrite (default all three)")
	flag.Parse()
	_ = only
	used := map[string]map[string]bool{"sync": {}, "sync/atomic": {}, "os": {}}
	rew := map[string]string{}
	fset := token.NewFileSet()
	must(os.MkdirAll(filepath.Join(*out, "files"), 0o755))
	for n, fn := range flag.Args() {
		// a file argument may be "path:pkgs" restricting which std
		// packages are redirected, e.g. tempfile.go:os
		restrict := map[string]bool{}
		path := fn
		for i := len(fn) - 1; i >= 0; i-- {
			if fn[i] == ':' {
				path = fn[:i]
				for _, p := range bytes.Split([]byte(fn[i+1:]), []byte(",")) {
					restrict[string(p)] = true
				}
				break
			}
		}
		f, err := parser.ParseFile(fset, path, nil, parser.ParseComments)
		must(err)
		local := map[string]string{} // local name -> std path
		changed := false
		for _, im := range f.Imports {
			p, _ := strconv.Unquote(im.Path.Value)
			if fs, ok := fixedShim[p]; ok && len(restrict) == 0 {
				if im.Name == nil {
					im.Name = ast.NewIdent(filepath.Base(p))
				}
				im.Path.Value = strconv.Quote(*mod + "/utils/verifhook/" + fs)
				changed = true
				continue
			}
			shim, ok := shimOf[p]
			if !ok {
				continue
			}
			if len(restrict) > 0 && !restrict[p] {
				continue
			}
			name := filepath.Base(p)
			if im.Name != nil {
				name = im.Name.Name
			}
			if name == "_" || name == "." {
				continue
			}
			local[name] = p
			im.Name = ast.NewIdent(name)
			im.Path.Value = strconv.Quote(*mod + "/utils/verifhook/" + shim)
			changed = true
		}
		if !changed {
			continue
		}
		ast.Inspect(f, func(nd ast.Node) bool {
			se, ok := nd.(*ast.SelectorExpr)
			if !ok {
				return true
			}
			id, ok := se.X.(*ast.Ident)
			if !ok || id.Obj != nil {
				return true
			}
			if p, ok := local[id.Name]; ok {
				used[p][se.Sel.Name] = true
			}
			return true
		})
		var buf bytes.Buffer
		must(format.Node(&buf, fset, f))
		dst := filepath.Join(*out, "files", fmt.Sprintf("%d_%s", n, filepath.Base(path)))
		must(os.WriteFile(dst, buf.Bytes(), 0o644))
		rew[path] = dst
	}
	imp := importer.ForCompiler(token.NewFileSet(), "source", nil)
	shims := map[string]string{}
	for std, shim := range shimOf {
		pkg, err := imp.Import(std)
		must(err)
		var names []string
		for k := range used[std] {
			names = append(names, k)
		}
		sort.Strings(names)
		src := gen(std, shim, *mod, pkg, names)
		formatted, err := format.Source([]byte(src))
		if err != nil {
			fmt.Fprintln(os.Stderr, src)
			must(err)
		}
		dir := filepath.Join(*out, shim)
		must(os.MkdirAll(dir, 0o755))
		fn := filepath.Join(dir, shim+".go")
		must(os.WriteFile(fn, formatted, 0o644))
		shims[shim] = fn
	}
	js, _ := json.MarshalIndent(map[string]interface{}{"rewritten": rew, "shims": shims}, "", " ")
	must(os.WriteFile(filepath.Join(*out, "map.json"), js, 0o644))
}

func must(err error) {
	if err != nil {
		fmt.Fprintln(os.Stderr, "ovlgen:", err)
		os.Exit(2)
	}
}

// wrapped os functions: name -> (params, call args, detail expression)
var osWrap = map[string][3]string{
	"Open":      {"name string", "name", "name"},
	"OpenFile":  {"name string, flag int, perm std.FileMode", "name, flag, perm", "name"},
	"Create":    {"name string", "name", "name"},
	"Remove":    {"name string", "name", "name"},
	"RemoveAll": {"path string", "path", "path"},
	"Rename":    {"oldpath, newpath string", "oldpath, newpath", "oldpath"},
	"Stat":      {"name string", "name", "name"},
	"Lstat":     {"name string", "name", "name"},
	"ReadDir":   {"name string", "name", "name"},
	"MkdirAll":  {"path string, perm std.FileMode", "path, perm", "path"},
	"Mkdir":     {"name string, perm std.FileMode", "name, perm", "name"},
	"ReadFile":  {"name string", "name", "name"},
	"Truncate":  {"name string, size int64", "name, size", "name"},
	"Chtimes":   {"name string, atime std_time.Time, mtime std_time.Time", "name, atime, mtime", "name"},
	"WriteFile": {"name string, data []byte, perm std.FileMode", "name, data, perm", "name"},
}

var osRet = map[string]string{
	"Open": "(*std.File, error)", "OpenFile": "(*std.File, error)", "Create": "(*std.File, error)",
	"Remove": "error", "RemoveAll": "error", "Rename": "error", "Stat": "(std.FileInfo, error)",
	"Lstat": "(std.FileInfo, error)", "ReadDir": "([]std.DirEntry, error)", "MkdirAll": "error",
	"Mkdir": "error", "ReadFile": "([]byte, error)", "Truncate": "error", "Chtimes": "error", "WriteFile": "error",
}

func gen(std, shim, mod string, pkg *types.Package, names []string) string {
	var b bytes.Buffer
	fmt.Fprintf(&b, "// Code generated by ovlgen. DO NOT EDIT.\n\npackage %s\n\nimport (\n\tstd %q\n", shim, std)
	needTime := false
	if std == "os" {
		for _, n := range names {
			if n == "Chtimes" {
				needTime = true
			}
		}
		fmt.Fprintf(&b, "\t\"path/filepath\"\n")
		if needTime {
			fmt.Fprintf(&b, "\tstd_time \"time\"\n")
		}
	}
	fmt.Fprintf(&b, "\t%q\n)\n\nvar _ = vsched.Step\n\n", mod+"/utils/verifhook/vsched")
	if std == "os" {
		fmt.Fprintf(&b, "var _ = filepath.Base\n\n")
	}
	for _, n := range names {
		obj := pkg.Scope().Lookup(n)
		if obj == nil {
			fmt.Fprintf(&b, "// %s: not found in %s\n", n, std)
			continue
		}
		switch {
		case std == "sync" && n == "Mutex":
			fmt.Fprintf(&b, "type Mutex = vsched.Mutex\n")
			continue
		case std == "sync/atomic" && n == "Int64":
			b.WriteString(atomicInt64)
			continue
		case std == "os":
			if w, ok := osWrap[n]; ok {
				pre := ""
				if n == "MkdirAll" {
					pre = "\tif vsched.FastDir(path) {\n\t\treturn nil\n\t}\n"
				}
				if n == "ReadDir" {
					pre = "\tif vsched.FastEmpty(name) {\n\t\treturn nil, nil\n\t}\n"
				}
				if n == "OpenFile" {
					// environment deviation: the harness may make a file creation fail
					pre = "\tif err := vsched.OpenFault(name, flag); err != nil {\n\t\treturn nil, err\n\t}\n"
				}
				fmt.Fprintf(&b, "func %s(%s) %s {\n%s\tvsched.Step(%q, filepath.Base(%s))\n\treturn std.%s(%s)\n}\n\n",
					n, w[0], osRet[n], pre, "os."+n, w[2], n, w[1])
				continue
			}
		}
		switch o := obj.(type) {
		case *types.TypeName:
			if named, ok := o.Type().(*types.Named); ok && named.TypeParams().Len() > 0 {
				tp := named.TypeParams()
				decl, use := "", ""
				for i := 0; i < tp.Len(); i++ {
					if i > 0 {
						decl += ", "
						use += ", "
					}
					decl += tp.At(i).Obj().Name() + " " + types.TypeString(tp.At(i).Constraint(), func(p *types.Package) string { return p.Name() })
					use += tp.At(i).Obj().Name()
				}
				fmt.Fprintf(&b, "type %s[%s] = std.%s[%s]\n", n, decl, n, use)
			} else {
				fmt.Fprintf(&b, "type %s = std.%s\n", n, n)
			}
		case *types.Const:
			fmt.Fprintf(&b, "const %s = std.%s\n", n, n)
		case *types.Var:
			fmt.Fprintf(&b, "var %s = std.%s\n", n, n)
		case *types.Func:
			fmt.Fprintf(&b, "var %s = std.%s\n", n, n)
		default:
			fmt.Fprintf(&b, "// %s: unsupported object kind %T\n", n, obj)
		}
	}
	return b.String()
}

const atomicInt64 = `
// Int64 mirrors sync/atomic.Int64; Add and Load are scheduling points when
// the session asks for it.
type Int64 struct{ v std.Int64 }

func (x *Int64) Load() int64 { vsched.AtomicStep("atomic.load"); return x.v.Load() }
func (x *Int64) Store(val int64) { vsched.AtomicStep("atomic.store"); x.v.Store(val) }
func (x *Int64) Add(delta int64) int64 { vsched.AtomicStep("atomic.add"); return x.v.Add(delta) }
func (x *Int64) Swap(val int64) int64 { vsched.AtomicStep("atomic.swap"); return x.v.Swap(val) }
func (x *Int64) CompareAndSwap(old, new int64) bool {
	vsched.AtomicStep("atomic.cas")
	return x.v.CompareAndSwap(old, new)
}
`
